import sys
sys.path.insert(0,'/verif/engine')
from qlint.core import *
from qlint import extract
paths,key=extract.extract()
FA=Facts(paths['default'])
n=0
for f in FA.lib_fns():
    if f['unsafe']: continue
    for spec in FA.specs(f):
        F=FA.fn(f,spec)
        for bi,t in F.calls():
            fn=t['f']['fn']
            if not fn['unsafe']: continue
            if any(m in ('vec',) for m in t['macros']): continue
            n+=1
            cond=site_condition(FA,F,bi)
            args=[show(norm(F.operand_term(a))) for a in t['args']]
            print('%s%s [%s] exp=%s\n   -> %s(%s)  macros=%s\n   cond: %s'%(f['path'],spec_key(spec),f['span'],f['exported'],short_callee(fn),', '.join(args),t['macros'],' AND '.join(fmt_atom(a) for a in cond)))
print(n)
