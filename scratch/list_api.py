import sys
sys.path.insert(0,'/verif/engine')
from qlint.core import *
from qlint import extract
paths,key=extract.extract()
FA=Facts(paths['default'])
for f in FA.lib_fns(include_closures=False):
    if f['unsafe'] or not f['exported']: continue
    params=[(f['names'].get(str(i),'_%d'%i), f['locals'][i]) for i in range(1,f['argc']+1)]
    print('%-110s %s -> %s  [%s]'%(f['path'], params, f['locals'][0], f['span']))
