#![feature(rustc_private)]
#![allow(unused)]
extern crate rustc_abi;
extern crate rustc_driver;
extern crate rustc_hir;
extern crate rustc_interface;
extern crate rustc_middle;
extern crate rustc_span;

use rustc_driver::Compilation;
use rustc_hir::def::DefKind;
use rustc_hir::def_id::DefId;
use rustc_middle::mir::{self, *};
use rustc_middle::ty::{self, Ty, TyCtxt, TyKind};
use std::fmt::Write as _;

fn esc(s: &str) -> String {
    let mut o = String::with_capacity(s.len() + 2);
    o.push('"');
    for c in s.chars() {
        match c {
            '"' => o.push_str("\\\""),
            '\\' => o.push_str("\\\\"),
            '\n' => o.push_str("\\n"),
            '\t' => o.push_str("\\t"),
            '\r' => o.push_str("\\r"),
            c if (c as u32) < 0x20 => { let _ = write!(o, "\\u{:04x}", c as u32); }
            c => o.push(c),
        }
    }
    o.push('"');
    o
}

struct Cx<'tcx, 'a> {
    tcx: TyCtxt<'tcx>,
    body: &'a Body<'tcx>,
    did: DefId,
}

impl<'tcx, 'a> Cx<'tcx, 'a> {
    fn ty_tag(&self, t: Ty<'tcx>) -> String {
        esc(&format!("{}", t))
    }

    fn place(&self, p: &Place<'tcx>) -> String {
        let mut s = format!("{{\"l\":{},\"proj\":[", p.local.as_usize());
        let mut first = true;
        for (i, elem) in p.projection.iter().enumerate() {
            if !first { s.push(','); }
            first = false;
            let base_ty = Place::ty_from(p.local, &p.projection[..i], &self.body.local_decls, self.tcx);
            match elem {
                ProjectionElem::Deref => s.push_str("\"*\""),
                ProjectionElem::Field(f, fty) => {
                    let mut name = format!("{}", f.as_usize());
                    if let TyKind::Adt(adt, _) = base_ty.ty.kind() {
                        let vi = base_ty.variant_index.unwrap_or(rustc_abi::FIRST_VARIANT);
                        if adt.variants().len() > vi.as_usize() {
                            let v = adt.variant(vi);
                            if v.fields.len() > f.as_usize() {
                                name = v.fields[f].name.to_string();
                            }
                        }
                    }
                    let _ = write!(s, "{{\"f\":{},\"i\":{},\"ty\":{},\"of\":{}}}", esc(&name), f.as_usize(), self.ty_tag(fty), self.ty_tag(base_ty.ty));
                }
                ProjectionElem::Index(l) => { let _ = write!(s, "{{\"idx\":{}}}", l.as_usize()); }
                ProjectionElem::ConstantIndex { offset, from_end, .. } => { let _ = write!(s, "{{\"cidx\":{},\"from_end\":{}}}", offset, from_end); }
                ProjectionElem::Downcast(name, vi) => { let _ = write!(s, "{{\"variant\":{},\"vi\":{}}}", esc(&name.map(|n| n.to_string()).unwrap_or_default()), vi.as_usize()); }
                other => { let _ = write!(s, "{{\"other\":{}}}", esc(&format!("{:?}", other))); }
            }
        }
        s.push_str("]}");
        s
    }

    fn callee(&self, c: &ConstOperand<'tcx>) -> Option<String> {
        let t = c.const_.ty();
        if let TyKind::FnDef(def_id, args) = t.kind() {
            let path = self.tcx.def_path_str(*def_id);
            let with_args = self.tcx.def_path_str_with_args(*def_id, args);
            let krate = self.tcx.crate_name(def_id.krate).to_string();
            let mut trait_of = String::new();
            let mut name = self.tcx.item_name(*def_id).to_string();
            if let Some(assoc) = self.tcx.opt_associated_item(*def_id) {
                if let Some(tr) = assoc.trait_container(self.tcx) {
                    trait_of = self.tcx.def_path_str(tr);
                } else if let Some(tr) = self.tcx.trait_of_assoc(*def_id) {
                    trait_of = self.tcx.def_path_str(tr);
                }
            }
            let self_ty = if !trait_of.is_empty() && args.len() > 0 { args.types().next().map(|t| format!("{}", t)).unwrap_or_default() } else { String::new() };
            let is_unsafe = self.tcx.fn_sig(*def_id).skip_binder().safety().is_unsafe();
            let gargs: Vec<String> = args.iter().map(|a| esc(&format!("{}", a))).collect();
            return Some(format!("{{\"path\":{},\"full\":{},\"crate\":{},\"trait\":{},\"name\":{},\"self_ty\":{},\"local\":{},\"unsafe\":{},\"gargs\":[{}]}}",
                esc(&path), esc(&with_args), esc(&krate), esc(&trait_of), esc(&name), esc(&self_ty), def_id.is_local(), is_unsafe, gargs.join(",")));
        }
        None
    }

    fn operand(&self, o: &Operand<'tcx>) -> String {
        match o {
            Operand::Copy(p) | Operand::Move(p) => format!("{{\"p\":{}}}", self.place(p)),
            Operand::Constant(c) => {
                if let Some(f) = self.callee(c) { return format!("{{\"fn\":{}}}", f); }
                let ty = c.const_.ty();
                let typing_env = ty::TypingEnv::post_analysis(self.tcx, self.did);
                let mut val = String::from("null");
                if ty.is_integral() || ty.is_bool() || ty.is_char() {
                    if let Some(si) = c.const_.try_eval_scalar_int(self.tcx, typing_env) {
                        let size = si.size();
                        let bits = si.to_bits(size);
                        val = format!("\"{}\"", bits);
                    }
                }
                format!("{{\"c\":{},\"ty\":{},\"val\":{}}}", esc(&format!("{}", c.const_)), self.ty_tag(ty), val)
            }
            #[allow(unreachable_patterns)]
            other => format!("{{\"other\":{}}}", esc(&format!("{:?}", other))),
        }
    }

    fn rvalue(&self, r: &Rvalue<'tcx>) -> String {
        match r {
            Rvalue::Use(o, _) => format!("{{\"k\":\"use\",\"a\":{}}}", self.operand(o)),
            Rvalue::BinaryOp(op, ab) => format!("{{\"k\":\"bin\",\"op\":{},\"a\":{},\"b\":{}}}", esc(&format!("{:?}", op)), self.operand(&ab.0), self.operand(&ab.1)),
            Rvalue::UnaryOp(op, a) => format!("{{\"k\":\"un\",\"op\":{},\"a\":{}}}", esc(&format!("{:?}", op)), self.operand(a)),
            Rvalue::Cast(kind, a, t) => format!("{{\"k\":\"cast\",\"ck\":{},\"a\":{},\"from\":{},\"to\":{}}}", esc(&format!("{:?}", kind)), self.operand(a), self.ty_tag(a.ty(&self.body.local_decls, self.tcx)), self.ty_tag(*t)),
            Rvalue::Ref(_, bk, p) => format!("{{\"k\":\"ref\",\"mut\":{},\"p\":{}}}", matches!(bk, BorrowKind::Mut { .. }), self.place(p)),
            Rvalue::RawPtr(k, p) => format!("{{\"k\":\"rawptr\",\"kind\":{},\"p\":{}}}", esc(&format!("{:?}", k)), self.place(p)),
            Rvalue::Discriminant(p) => format!("{{\"k\":\"discr\",\"p\":{}}}", self.place(p)),
            Rvalue::CopyForDeref(p) => format!("{{\"k\":\"use\",\"a\":{{\"p\":{}}}}}", self.place(p)),
            Rvalue::Aggregate(kind, ops) => {
                let kd = match &**kind {
                    AggregateKind::Adt(def_id, vi, _, _, _) => format!("{{\"adt\":{},\"vi\":{}}}", esc(&self.tcx.def_path_str(*def_id)), vi.as_usize()),
                    AggregateKind::Closure(def_id, _) => format!("{{\"closure\":{}}}", esc(&self.tcx.def_path_str(*def_id))),
                    AggregateKind::Tuple => "{\"tuple\":true}".to_string(),
                    AggregateKind::Array(_) => "{\"array\":true}".to_string(),
                    other => format!("{{\"other\":{}}}", esc(&format!("{:?}", other))),
                };
                let ops: Vec<String> = ops.iter().map(|o| self.operand(o)).collect();
                format!("{{\"k\":\"agg\",\"kind\":{},\"ops\":[{}]}}", kd, ops.join(","))
            }
            Rvalue::Repeat(o, n) => format!("{{\"k\":\"repeat\",\"a\":{},\"n\":{}}}", self.operand(o), esc(&format!("{}", n))),
            other => format!("{{\"k\":\"other\",\"dbg\":{}}}", esc(&format!("{:?}", other))),
        }
    }

    fn span_str(&self, sp: rustc_span::Span) -> String {
        let sm = self.tcx.sess.source_map();
        let lo = sm.lookup_char_pos(sp.lo());
        format!("{}:{}", lo.file.name.prefer_local_unconditionally(), lo.line)
    }

    fn macro_bt(&self, sp: rustc_span::Span) -> String {
        let mut names = vec![];
        for ed in sp.macro_backtrace() {
            if let rustc_span::hygiene::ExpnKind::Macro(_, name) = ed.kind { names.push(esc(&name.to_string())); }
        }
        format!("[{}]", names.join(","))
    }
}


fn ty_tags<'tcx>(tcx: TyCtxt<'tcx>, t: Ty<'tcx>, out: &mut Vec<String>, depth: usize) {
    if depth > 8 { out.push("deep".into()); return; }
    match t.kind() {
        TyKind::Bool => out.push("bool".into()),
        TyKind::Char => out.push("char".into()),
        TyKind::Int(i) => out.push(format!("int:{}", i.name_str())),
        TyKind::Uint(u) => out.push(format!("int:{}", u.name_str())),
        TyKind::Float(_) => out.push("float".into()),
        TyKind::RawPtr(inner, _) => { out.push("rawptr".into()); ty_tags(tcx, *inner, out, depth + 1); }
        TyKind::Ref(_, inner, m) => { out.push(if m.is_mut() { "refmut".into() } else { "ref".into() }); ty_tags(tcx, *inner, out, depth + 1); }
        TyKind::Adt(adt, args) => {
            out.push(format!("adt:{}", tcx.def_path_str(adt.did())));
            if adt.is_unsafe_cell() { out.push("unsafecell".into()); }
            for a in args.iter() { if let Some(ty) = a.as_type() { ty_tags(tcx, ty, out, depth + 1); } }
            // look through foreign ADT fields (Vec, Box, Option, Cell, Rc ...) one level for interior mutability
            if !adt.did().is_local() {
                for v in adt.variants() { for f in &v.fields {
                    let fty = tcx.type_of(f.did).instantiate(tcx, args).skip_norm_wip();
                    if let TyKind::Adt(a2, _) = fty.kind() { if a2.is_unsafe_cell() { out.push("unsafecell".into()); } }
                    if matches!(fty.kind(), TyKind::Adt(..)) && depth < 3 { let mut sub = vec![]; ty_tags(tcx, fty, &mut sub, depth + 4); for s in sub { if s == "unsafecell" || s == "rawptr-owned" { out.push(s); } } }
                } }
            }
        }
        TyKind::Array(inner, n) => { out.push(format!("array:{}", n)); ty_tags(tcx, *inner, out, depth + 1); }
        TyKind::Slice(inner) => { out.push("slice".into()); ty_tags(tcx, *inner, out, depth + 1); }
        TyKind::Tuple(ts) => { out.push(format!("tuple:{}", ts.len())); for x in ts.iter() { ty_tags(tcx, x, out, depth + 1); } }
        TyKind::Param(p) => out.push(format!("param:{}", p.name)),
        TyKind::FnPtr(..) => out.push("fnptr".into()),
        TyKind::Dynamic(..) => out.push("dyn".into()),
        TyKind::Never => out.push("never".into()),
        TyKind::Str => out.push("str".into()),
        other => out.push(format!("other:{:?}", other)),
    }
}

struct Cb;
impl rustc_driver::Callbacks for Cb {
    fn after_analysis<'tcx>(&mut self, _c: &rustc_interface::interface::Compiler, tcx: TyCtxt<'tcx>) -> Compilation {
        let cname = tcx.crate_name(rustc_span::def_id::LOCAL_CRATE);
        if cname.as_str() != "qwt" { return Compilation::Continue; }
        let out_path = match std::env::var("QFACTS_OUT") { Ok(p) => p, Err(_) => return Compilation::Continue };
        let mut out = String::new();
        out.push_str("{\"fns\":[\n");
        let mut first_fn = true;
        let ev = tcx.effective_visibilities(());
        for ldid in tcx.mir_keys(()) {
            let did = ldid.to_def_id();
            let kind = tcx.def_kind(did);
            if !matches!(kind, DefKind::Fn | DefKind::AssocFn | DefKind::Closure) { continue; }
            let body = tcx.optimized_mir(did);
            let cx = Cx { tcx, body, did };
            if !first_fn { out.push_str(",\n"); }
            first_fn = false;
            let path = tcx.def_path_str(did);
            let is_unsafe = if matches!(kind, DefKind::Closure) { false } else { tcx.fn_sig(did).skip_binder().safety().is_unsafe() };
            let exported = ev.is_reachable(*ldid);
            let mut impl_trait = String::new();
            let mut impl_self = String::new();
            let mut derived = false;
            let name = if matches!(kind, DefKind::Closure) { "{closure}".to_string() } else { tcx.item_name(did).to_string() };
            if let Some(assoc) = tcx.opt_associated_item(did) {
                let cont = assoc.container_id(tcx);
                if tcx.def_kind(cont) == (DefKind::Impl { of_trait: true }) {
                    let tr = tcx.impl_trait_ref(cont).skip_binder();
                    impl_trait = tcx.def_path_str(tr.def_id);
                    impl_self = format!("{}", tr.self_ty());
                    derived = tcx.is_automatically_derived(cont);
                } else if tcx.def_kind(cont) == (DefKind::Impl { of_trait: false }) {
                    impl_self = format!("{}", tcx.type_of(cont).skip_binder());
                } else if tcx.def_kind(cont) == DefKind::Trait {
                    impl_trait = tcx.def_path_str(cont);
                    impl_self = "Self".into();
                }
            }
            let mut gens: Vec<String> = vec![];
            {
                let mut chain = vec![];
                let mut g = Some(tcx.generics_of(did));
                while let Some(gg) = g { chain.push(gg); g = gg.parent.map(|p| tcx.generics_of(p)); }
                chain.reverse();
                for gg in chain {
                    for p in &gg.own_params {
                        let k = match p.kind { ty::GenericParamDefKind::Lifetime => "lifetime", ty::GenericParamDefKind::Type { .. } => "type", ty::GenericParamDefKind::Const { .. } => "const" };
                        let cty = if k == "const" { format!("{}", tcx.type_of(p.def_id).skip_binder()) } else { String::new() };
                        gens.push(format!("{{\"name\":{},\"kind\":\"{}\",\"ty\":{}}}", esc(&p.name.to_string()), k, esc(&cty)));
                    }
                }
            }
            let vis_pub = if matches!(kind, DefKind::Fn | DefKind::AssocFn) { tcx.visibility(did).is_public() } else { false };
            let in_macro = body.span.from_expansion();
            let _ = write!(out, "{{\"path\":{},\"name\":{},\"kind\":{},\"unsafe\":{},\"exported\":{},\"pub\":{},\"impl_trait\":{},\"impl_self\":{},\"derived\":{},\"span\":{},\"from_expansion\":{},\"argc\":{},\"generics\":[{}],",
                esc(&path), esc(&name), esc(&format!("{:?}", kind)), is_unsafe, exported, vis_pub, esc(&impl_trait), esc(&impl_self), derived, esc(&cx.span_str(body.span)), in_macro, body.arg_count, gens.join(","));
            // locals
            out.push_str("\"locals\":[");
            for (i, (l, d)) in body.local_decls.iter_enumerated().enumerate() {
                if i > 0 { out.push(','); }
                let _ = write!(out, "{}", cx.ty_tag(d.ty));
            }
            out.push_str("],\"names\":{");
            let mut firstn = true;
            for vdi in &body.var_debug_info {
                if let VarDebugInfoContents::Place(p) = &vdi.value {
                    if p.projection.is_empty() {
                        if !firstn { out.push(','); }
                        firstn = false;
                        let _ = write!(out, "\"{}\":{}", p.local.as_usize(), esc(&vdi.name.to_string()));
                    }
                }
            }
            out.push_str("},\"blocks\":[");
            for (bi, (bb, data)) in body.basic_blocks.iter_enumerated().enumerate() {
                if bi > 0 { out.push(','); }
                out.push_str("{\"s\":[");
                let mut firsts = true;
                for st in &data.statements {
                    if let StatementKind::Assign(b) = &st.kind {
                        if !firsts { out.push(','); }
                        firsts = false;
                        let _ = write!(out, "{{\"lhs\":{},\"rv\":{},\"line\":{},\"macros\":{}}}", cx.place(&b.0), cx.rvalue(&b.1), esc(&cx.span_str(st.source_info.span)), cx.macro_bt(st.source_info.span));
                    } else if matches!(&st.kind, StatementKind::SetDiscriminant { .. } | StatementKind::Intrinsic(..)) {
                        if !firsts { out.push(','); }
                        firsts = false;
                        let _ = write!(out, "{{\"stmt\":{},\"line\":{}}}", esc(&format!("{:?}", st.kind)), esc(&cx.span_str(st.source_info.span)));
                    }
                }
                out.push_str("],\"t\":");
                let term = data.terminator();
                let tline = esc(&cx.span_str(term.source_info.span));
                match &term.kind {
                    TerminatorKind::Goto { target } => { let _ = write!(out, "{{\"k\":\"goto\",\"to\":{}}}", target.as_usize()); }
                    TerminatorKind::SwitchInt { discr, targets } => {
                        let arms: Vec<String> = targets.iter().map(|(v, b)| format!("[\"{}\",{}]", v, b.as_usize())).collect();
                        let _ = write!(out, "{{\"k\":\"switch\",\"d\":{},\"arms\":[{}],\"else\":{},\"line\":{},\"macros\":{}}}", cx.operand(discr), arms.join(","), targets.otherwise().as_usize(), tline, cx.macro_bt(term.source_info.span));
                    }
                    TerminatorKind::Call { func, args, destination, target, .. } => {
                        let a: Vec<String> = args.iter().map(|s| cx.operand(&s.node)).collect();
                        let _ = write!(out, "{{\"k\":\"call\",\"f\":{},\"args\":[{}],\"dest\":{},\"to\":{},\"line\":{},\"macros\":{}}}",
                            cx.operand(func), a.join(","), cx.place(destination), target.map(|t| t.as_usize() as i64).unwrap_or(-1), tline, cx.macro_bt(term.source_info.span));
                    }
                    TerminatorKind::Assert { cond, expected, msg, target, .. } => {
                        let kind = match &**msg {
                            AssertKind::Overflow(op, a, b) => format!("{{\"overflow\":{},\"a\":{},\"b\":{}}}", esc(&format!("{:?}", op)), cx.operand(a), cx.operand(b)),
                            AssertKind::BoundsCheck { len, index } => format!("{{\"bounds\":true,\"len\":{},\"index\":{}}}", cx.operand(len), cx.operand(index)),
                            other => format!("{{\"other\":{}}}", esc(&format!("{:?}", other))),
                        };
                        let _ = write!(out, "{{\"k\":\"assert\",\"cond\":{},\"expected\":{},\"msg\":{},\"to\":{},\"line\":{},\"macros\":{}}}", cx.operand(cond), expected, kind, target.as_usize(), tline, cx.macro_bt(term.source_info.span));
                    }
                    TerminatorKind::Return => out.push_str("{\"k\":\"return\"}"),
                    TerminatorKind::Unreachable => out.push_str("{\"k\":\"unreachable\"}"),
                    TerminatorKind::Drop { place, target, .. } => { let _ = write!(out, "{{\"k\":\"drop\",\"p\":{},\"to\":{}}}", cx.place(place), target.as_usize()); }
                    other => { let _ = write!(out, "{{\"k\":\"other\",\"dbg\":{}}}", esc(&format!("{:?}", other))); }
                }
                out.push('}');
            }
            out.push_str("]}");
        }
        out.push_str("\n],\"adts\":[\n");
        // ADTs
        let mut first_adt = true;
        for id in tcx.hir_free_items() {
            let did = id.owner_id.to_def_id();
            let kind = tcx.def_kind(did);
            if !matches!(kind, DefKind::Struct | DefKind::Enum) { continue; }
            let adt = tcx.adt_def(did);
            if !first_adt { out.push_str(",\n"); }
            first_adt = false;
            let agens: Vec<String> = tcx.generics_of(did).own_params.iter().map(|p| {
                let k = match p.kind { ty::GenericParamDefKind::Lifetime => "lifetime", ty::GenericParamDefKind::Type { .. } => "type", ty::GenericParamDefKind::Const { .. } => "const" };
                format!("{{\"name\":{},\"kind\":\"{}\"}}", esc(&p.name.to_string()), k)
            }).collect();
            let _ = write!(out, "{{\"path\":{},\"kind\":{},\"span\":{},\"exported\":{},\"repr\":{},\"align\":{},\"generics\":[{}],\"fields\":[", esc(&tcx.def_path_str(did)), esc(&format!("{:?}", kind)), esc(&{ let sm = tcx.sess.source_map(); let lo = sm.lookup_char_pos(tcx.def_span(did).lo()); format!("{}:{}", lo.file.name.prefer_local_unconditionally(), lo.line) }), ev.is_reachable(id.owner_id.def_id), esc(&format!("{:?}", adt.repr())), adt.repr().align.map(|a| a.bytes()).unwrap_or(0), agens.join(","));
            let mut ff = true;
            for v in adt.variants() {
                for f in &v.fields {
                    if !ff { out.push(','); }
                    ff = false;
                    let fty = tcx.type_of(f.did).skip_binder();
                    let attrs: Vec<String> = tcx.get_all_attrs(f.did).iter().map(|a| esc(&format!("{:?}", a))).collect();
                    let mut tags: Vec<String> = vec![];
                    ty_tags(tcx, fty, &mut tags, 0);
                    let tagj: Vec<String> = tags.iter().map(|t| esc(t)).collect();
                    let _ = write!(out, "{{\"name\":{},\"ty\":{},\"attrs\":[{}],\"tags\":[{}],\"pub\":{}}}", esc(&f.name.to_string()), esc(&format!("{}", fty)), attrs.join(","), tagj.join(","), tcx.visibility(f.did).is_public());
                }
            }
            out.push_str("]}");
        }
        out.push_str("\n],\"impls\":[\n");
        let mut first_impl = true;
        for id in tcx.hir_free_items() {
            let did = id.owner_id.to_def_id();
            let kind = tcx.def_kind(did);
            if !matches!(kind, DefKind::Impl { .. }) { continue; }
            let self_ty = tcx.type_of(did).skip_binder();
            let mut self_adt = String::new();
            if let TyKind::Adt(a, _) = self_ty.kind() { self_adt = tcx.def_path_str(a.did()); }
            if let TyKind::Ref(_, inner, _) = self_ty.kind() { if let TyKind::Adt(a, _) = inner.kind() { self_adt = format!("&{}", tcx.def_path_str(a.did())); } }
            let mut tr = String::new();
            let mut is_unsafe = false;
            let mut negative = false;
            if matches!(kind, DefKind::Impl { of_trait: true }) {
                let h = tcx.impl_trait_header(did);
                tr = tcx.def_path_str(h.trait_ref.skip_binder().def_id);
                is_unsafe = h.safety.is_unsafe();
                negative = matches!(h.polarity, ty::ImplPolarity::Negative);
            }
            let items: Vec<String> = tcx.associated_item_def_ids(did).iter().map(|d| esc(&tcx.item_name(*d).to_string())).collect();
            let preds: Vec<String> = tcx.predicates_of(did).predicates.iter().map(|(c, _)| esc(&format!("{:?}", c))).collect();
            if !first_impl { out.push_str(",\n"); }
            first_impl = false;
            let _ = write!(out, "{{\"path\":{},\"trait\":{},\"self_ty\":{},\"self_adt\":{},\"derived\":{},\"unsafe\":{},\"negative\":{},\"items\":[{}],\"preds\":[{}],\"span\":{}}}",
                esc(&tcx.def_path_str(did)), esc(&tr), esc(&format!("{}", self_ty)), esc(&self_adt), tcx.is_automatically_derived(did), is_unsafe, negative, items.join(","), preds.join(","),
                esc(&{ let sm = tcx.sess.source_map(); let lo = sm.lookup_char_pos(tcx.def_span(did).lo()); format!("{}:{}", lo.file.name.prefer_local_unconditionally(), lo.line) }));
        }
        out.push_str("\n],\"statics\":[");
        let mut first_st = true;
        for id in tcx.hir_free_items() {
            let did = id.owner_id.to_def_id();
            if let DefKind::Static { mutability, .. } = tcx.def_kind(did) {
                if !first_st { out.push(','); }
                first_st = false;
                let _ = write!(out, "{{\"path\":{},\"mut\":{}}}", esc(&tcx.def_path_str(did)), mutability.is_mut());
            }
        }
        out.push_str("],\"consts\":{");
        // constants: evaluate K_SELECT_IN_BYTE bytes; layouts; freeze
        let mut firstc = true;
        for id in tcx.hir_free_items() {
            let did = id.owner_id.to_def_id();
            if !matches!(tcx.def_kind(did), DefKind::Const { .. }) { continue; }
            let name = tcx.def_path_str(did);
            let ty = tcx.type_of(did).skip_binder();
            let mut val = String::from("null");
            if let Ok(cv) = tcx.const_eval_poly(did) {
                match cv {
                    rustc_middle::mir::ConstValue::Scalar(s) => { if let Ok(i) = s.try_to_scalar_int() { val = format!("\"{}\"", i.to_bits(i.size())); } }
                    rustc_middle::mir::ConstValue::Indirect { alloc_id, offset } => {
                        let alloc = tcx.global_alloc(alloc_id).unwrap_memory();
                        let a = alloc.inner();
                        let len = a.len();
                        let bytes = a.inspect_with_uninit_and_ptr_outside_interpreter(offset.bytes_usize()..len);
                        if len <= 4096 { val = format!("[{}]", bytes.iter().map(|b| b.to_string()).collect::<Vec<_>>().join(",")); }
                    }
                    _ => {}
                }
            }
            if !firstc { out.push(','); }
            firstc = false;
            let _ = write!(out, "{}:{{\"ty\":{},\"val\":{}}}", esc(&name), esc(&format!("{}", ty)), val);
        }
        for ldid in tcx.mir_keys(()) {
            let did = ldid.to_def_id();
            if !matches!(tcx.def_kind(did), DefKind::AssocConst { .. }) { continue; }
            let name = tcx.def_path_str(did);
            let ty = tcx.type_of(did).skip_binder();
            let mut val = String::from("null");
            if let Ok(cv) = tcx.const_eval_poly(did) {
                if let rustc_middle::mir::ConstValue::Scalar(s) = cv { if let Ok(i) = s.try_to_scalar_int() { val = format!("\"{}\"", i.to_bits(i.size())); } }
            }
            if !firstc { out.push(','); }
            firstc = false;
            let _ = write!(out, "{}:{{\"ty\":{},\"val\":{},\"assoc\":true}}", esc(&name), esc(&format!("{}", ty)), val);
        }
        out.push_str("},\"layouts\":{");
        let mut firstl = true;
        for id in tcx.hir_free_items() {
            let did = id.owner_id.to_def_id();
            if !matches!(tcx.def_kind(did), DefKind::Struct) { continue; }
            let generics = tcx.generics_of(did);
            let ty = tcx.type_of(did).skip_binder();
            let typing_env = ty::TypingEnv::post_analysis(tcx, did);
            let freeze = ty.is_freeze(tcx, typing_env);
            let mut lay = String::from("null");
            if generics.count() == 0 {
                if let Ok(l) = tcx.layout_of(typing_env.as_query_input(ty)) {
                    lay = format!("{{\"size\":{},\"align\":{}}}", l.size.bytes(), l.align.abi.bytes());
                }
            }
            if !firstl { out.push(','); }
            firstl = false;
            let _ = write!(out, "{}:{{\"freeze\":{},\"layout\":{}}}", esc(&tcx.def_path_str(did)), freeze, lay);
        }
        out.push_str("},\"aliases\":{");
        let mut firsta = true;
        for id in tcx.hir_free_items() {
            let did = id.owner_id.to_def_id();
            if !matches!(tcx.def_kind(did), DefKind::TyAlias) { continue; }
            let ty = tcx.type_of(did).skip_binder();
            if !firsta { out.push(','); }
            firsta = false;
            let _ = write!(out, "{}:{}", esc(&tcx.def_path_str(did)), esc(&format!("{}", ty)));
        }
        out.push_str("}}\n");
        std::fs::write(&out_path, out).unwrap();
        eprintln!("qfacts: wrote {}", out_path);
        Compilation::Continue
    }
}

fn main() {
    let mut args: Vec<String> = std::env::args().collect();
    args.remove(1); // wrapper protocol: argv[1] is the real rustc
    rustc_driver::run_compiler(&args, &mut Cb);
}
