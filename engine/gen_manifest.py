#!/usr/bin/env python3
"""Regenerate /verif/MANIFEST.json from engine/qlint/props.py (single source of truth)."""
import json, os, sys
HERE = os.path.dirname(os.path.abspath(__file__))
sys.path.insert(0, HERE)
from qlint import props as P

VERIF = os.path.dirname(HERE)
ids = [json.loads(l)['id'] for l in open(os.path.join(VERIF, 'properties.jsonl'))]
checks = []
na = []
for pid in ids:
    spec = P.PROPERTIES.get(pid)
    if spec is None:
        na.append({'property_id': pid, 'reason': P.NOT_APPLICABLE.get(pid, 'rules for this property are not implemented yet')})
        continue
    checks.append({
        'property_id': pid,
        'quick_cmd': './check %s --tier quick' % pid,
        'thorough_cmd': './check %s --tier thorough' % pid,
        'evidence_file': 'evidence/%s.json' % pid,
        'replay_cmd_template': './check %s --replay {path}' % pid,
        'engine': 'qlint',
        'level_claimed': {
            'category': spec['level'],
            'text': spec['explanation'],
            'design_ref': 'DESIGN.md section 5 (%s), rules in section 3' % pid,
        },
        'level_note': 'Decides the named structural clauses (necessary conditions), NOT the input/output behaviour. '
                      'Not decided: %s. Trusted: rustc MIR/type checker/layout, std, %s' % (
                          spec['not_decided'] or 'n/a', ', '.join(spec['trusted_base']) or 'no further components'),
        'technique': 'static analysis: custom rustc_private MIR fact extractor + repository-specific rules (%s)' % ', '.join(spec['rules']),
    })
m = {
    'version': 1,
    'setup_cmd': 'cd engine/facts-driver && CARGO_NET_OFFLINE=true cargo build --release --offline',
    'hooks': {
        'guard': 'qwt_verif',
        'enable': 'none needed: static analysis observes the source as it is (no hooks in /repo)',
        'baseline_off_cmd': 'cd /repo && cargo test --workspace --no-fail-fast --offline',
        'source_commits': [],
        'add_only': True,
    },
    'engines': [
        {'name': 'facts-driver', 'path': 'engine/facts-driver', 'serves_properties': [c['property_id'] for c in checks],
         'kind_free_text': 'rustc_private driver (nightly) injected as RUSTC_WORKSPACE_WRAPPER; dumps MIR/ADT/impl/const facts per configuration'},
        {'name': 'qlint', 'path': 'engine/qlint', 'serves_properties': [c['property_id'] for c in checks],
         'kind_free_text': 'Python rule engine over the facts: CFG/dominators, const-generic specialisation, term builder, guard atoms, call graph; rules R-*'},
    ],
    'checks': checks,
    'not_applicable': na,
    'notes': 'See DESIGN.md. Every check decides /repo\'s current working tree (facts re-extracted when the tree hash changes).',
}
json.dump(m, open(os.path.join(VERIF, 'MANIFEST.json'), 'w'), indent=1)
print('checks:', [c['property_id'] for c in checks], 'not_applicable:', [n['property_id'] for n in na])
