"""R-INV: the unsafe frontier of every safe API function.

A safe exported function E discharges, for all its callers, the obligation of every unsafe operation it reaches without
passing through another safe exported function.  The frontier of E is the set of call sites of *primitive* unsafe
operations (foreign `unsafe fn`s such as slice::get_unchecked / from_raw_parts / intrinsics, and unsafe trait methods
called on a type parameter) found in E, in the closures it creates, in the private safe helpers it calls and in every
crate-local `unsafe fn` it calls (private or public: an `unsafe fn` passes its obligation to its caller, so it is
expanded).  Safe exported callees are not expanded: they are entries of their own.

engine/unsafe_inventory.json freezes, per entry (`Type[::Trait]::method`, module path dropped) and primitive, the number of
distinct sites present on the reviewed tree; each was classified by reading (twin call behind the documented guard [R-G],
masked / sentinel-bounded slice access [R-LAY, R-SPLIT], layout-checked raw view [R-LAY a], prefetch / popcount
intrinsic).  The rule reports an entry whose frontier has MORE sites of some primitive than reviewed -- checked indexing
replaced by get_unchecked, a checked call replaced by its `_unchecked` twin -- unless the additional sites are locally
discharged (slice access dominated by `idx < len` of the same slice).  Renaming or moving helpers, extracting code into
private (safe or unsafe) functions and moving a type into a sub-module leave every frontier unchanged."""
import collections
import json
import os

from .core import *
from .report import Inst

INV_PATH = os.path.join(os.path.dirname(os.path.abspath(__file__)), '..', 'unsafe_inventory.json')

SKIP_MACROS = ('vec', 'write', 'format', 'dbg', 'println', 'eprintln', 'panic', 'assert', 'debug_assert', 'format_args')


def entry_key(f):
    """Type[::Trait]::name without the module path (moving a type into a sub-module keeps the key)."""
    k = fn_key(f)
    parts = k.split('::')
    # drop lower-case module segments in front of the first capitalised (type / trait) segment
    i = 0
    while i < len(parts) - 1 and not parts[i][:1].isupper():
        i += 1
    return '::'.join(parts[i:]) if i < len(parts) - 1 else k


def _is_entry(f):
    return f['exported'] and not f['unsafe'] and f['kind'] != 'Closure' and not f['derived']


def frontier(FA, f, _memo):
    """{primitive: {site id: (F, bb, terminator)}} reached from f (see module doc)."""
    out = collections.defaultdict(dict)
    seen = set()
    st = [f]
    while st:
        g = st.pop()
        if g['path'] in seen:
            continue
        seen.add(g['path'])
        F = FA.fn(g)
        for bi, b in enumerate(g['blocks']):
            for s in b['s']:
                rv = s.get('rv')
                if rv and rv['k'] == 'agg' and 'closure' in rv['kind']:
                    c = FA.fns.get(rv['kind']['closure'])
                    if c is not None:
                        st.append(c)
            t = b['t']
            if t['k'] != 'call' or 'fn' not in t['f']:
                continue
            fn = t['f']['fn']
            if any(m in SKIP_MACROS or 'fmt' in m or 'panic' in m for m in t.get('macros', [])):
                continue
            if fn['path'].startswith('std::fmt') or fn['path'].startswith('core::fmt'):
                continue
            cands = FA.resolve(fn) if (fn.get('local') or fn.get('crate') == 'qwt') else []
            if fn['trait'] and FA.by_trait.get((fn['trait'], fn['name'], base_type(fn['self_ty']))) is None \
                    and not (len(cands) == 1 and cands[0]['path'] == fn['path']):
                cands = []             # trait method on a type parameter: the implementation is the instantiator's choice
            if len(cands) == 1 and cands[0]['blocks']:
                h = cands[0]
                if h['unsafe'] or not _is_entry(h):
                    st.append(h)       # unsafe fn (any visibility) or private safe helper: expanded
                continue               # safe exported callee: its own entry
            if fn['unsafe']:
                out[short_callee(fn)][(g['path'], bi)] = (F, bi, t)
    return out


def collect(FA):
    inv = {}
    memo = {}
    for f in FA.lib_fns(include_closures=False):
        if not _is_entry(f):
            continue
        fr = frontier(FA, f, memo)
        if fr:
            k = entry_key(f)
            cur = inv.setdefault(k, collections.defaultdict(dict))
            for prim, sites in fr.items():
                cur[prim].update(sites)
    return inv


def locally_discharged(F, bi, t):
    fn = t['f']['fn']
    if fn['name'] in ('get_unchecked', 'get_unchecked_mut') and 'slice' in fn['path'] and len(t['args']) == 2:
        recv = norm(F.operand_term(t['args'][0]))
        idx = norm(F.operand_term(t['args'][1]))
        for op, a, b in [x for x in path_atoms(F, bi) if x[0] == '<']:
            if a == idx and b[0] == 'call' and b[1].split('::')[-1] == 'len' and b[2] and strip_ref(b[2][0]) == strip_ref(recv):
                return True
    return False


def rule_INV(FA):
    out = []
    props = ['C04']
    try:
        table = json.load(open(INV_PATH))
    except OSError:
        return [Inst('R-INV', 'R-INV|table', 'violation', '', 'engine/unsafe_inventory.json missing', props)]
    inv = collect(FA)
    for k in sorted(inv):
        for prim, sites in sorted(inv[k].items()):
            n = len(sites)
            allowed = table.get(k, {}).get(prim, 0)
            key = 'R-INV|%s|%s' % (k, prim)
            any_site = sorted(sites.items())[0][1]
            line = any_site[2].get('line', '')
            if n <= allowed:
                out.append(Inst('R-INV', key, 'ok', line, '%d site(s) of unsafe `%s` in the frontier, reviewed inventory has %d' % (n, prim, allowed), props, nontrivial=True))
                continue
            und = [s for _, s in sorted(sites.items()) if not locally_discharged(*s)]
            if len(und) <= allowed:
                out.append(Inst('R-INV', key, 'ok', line, 'additional unchecked slice access is dominated by `index < len` of the same slice', props))
                continue
            where = ['%s (%s)' % (fn_key(FA.closure_parent(s[0].f)).split('::', 1)[-1], s[2].get('line', '')) for s in und]
            # An additional unchecked operation is a reason to re-review, not a proof of a defect: restructurings that split a
            # function (one site per specialisation) or decode in place legitimately add sites.  Reported as a note; the
            # obligations themselves are decided by R-G / R-GUSE / R-E / R-LAY.
            out.append(Inst('R-INV', key, 'note', und[-1][2].get('line', ''),
                            'safe API function `%s` reaches %d site(s) of unsafe `%s` without passing through another safe API function, the reviewed inventory has %d: '
                            'a new unchecked operation whose obligation is not discharged locally (no dominating `index < len`) and is not classified; sites: %s' % (
                                k, n, prim, allowed, '; '.join(where[:8])), props, nontrivial=True,
                            sample={'sites': where[:20]}))
    return out


def dump_inventory(FA):
    inv = collect(FA)
    return {k: {p: len(s) for p, s in sorted(v.items())} for k, v in sorted(inv.items())}
