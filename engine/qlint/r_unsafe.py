"""R-INV: inventory of unsafe operations performed by SAFE functions.

Every call of an `unsafe fn` (crate-local or foreign: slice::get_unchecked, from_raw_parts, intrinsics, ...) made by a
safe function is an obligation the safe function discharges for all its callers.  The sites present on the reviewed tree
are frozen in engine/unsafe_inventory.json (function -> callee -> count; each was classified by reading: twin call behind
the documented guard [R-G], masked / sentinel-bounded slice access [R-LAY, R-SPLIT], layout-checked raw view [R-LAY a],
prefetch / popcount intrinsic).  A NEW unsafe call in a safe function -- the classic "replace checked indexing by
get_unchecked" optimisation -- is accepted only if it is locally discharged (slice access dominated by `idx < len` of the
same slice); otherwise it is reported.  Moving a site between functions of the same module is tolerated."""
import collections
import json
import os

from .core import *
from .report import Inst

INV_PATH = os.path.join(os.path.dirname(os.path.abspath(__file__)), '..', 'unsafe_inventory.json')


def collect(FA):
    inv = collections.defaultdict(collections.Counter)
    sites = collections.defaultdict(list)
    for f in FA.lib_fns():
        if f['unsafe'] or FA.closure_parent(f)['unsafe']:
            continue
        k = fn_key(FA.closure_parent(f))
        seen_specs = set()
        for spec in FA.specs(f):
            F = FA.fn(f, spec)
            for bi, t in F.calls():
                fn = t['f']['fn']
                if not fn['unsafe']:
                    continue
                if any(m in ('vec', 'write', 'format', 'dbg', 'println', 'eprintln', 'panic', 'assert', 'debug_assert', 'format_args') or 'fmt' in m or 'panic' in m
                       for m in t.get('macros', [])):
                    continue
                if fn['path'].startswith('std::fmt') or fn['path'].startswith('core::fmt'):
                    continue
                sid = (k, short_callee(fn), t.get('line', ''))
                if sid in seen_specs:
                    continue
                seen_specs.add(sid)
                inv[k][short_callee(fn)] += 1
                sites[(k, short_callee(fn))].append((F, bi, t))
    return inv, sites


def module_of(k):
    parts = k.split('::')
    return '::'.join(parts[:2]) if len(parts) > 2 else parts[0]


def locally_discharged(F, bi, t):
    fn = t['f']['fn']
    if fn['name'] in ('get_unchecked', 'get_unchecked_mut') and 'slice' in fn['path'] and len(t['args']) == 2:
        recv = norm(F.operand_term(t['args'][0]))
        idx = norm(F.operand_term(t['args'][1]))
        for op, a, b in [x for x in path_atoms(F, bi) if x[0] == '<']:
            if a == idx and b[0] == 'call' and b[1].split('::')[-1] == 'len' and b[2] and strip_ref(b[2][0]) == strip_ref(recv):
                return True
        # constant-length array receiver with a masked index
        if idx[0] == 'bin' and idx[1] == 'BitAnd' and any(x[0] == 'const' for x in (idx[2], idx[3])):
            m = [x[1] for x in (idx[2], idx[3]) if x[0] == 'const'][0]
            if recv[0] == 'cast' and '[' in recv[1]:
                return False
    return False


def rule_INV(FA):
    out = []
    props = ['C04']
    try:
        table = json.load(open(INV_PATH))
    except OSError:
        return [Inst('R-INV', 'R-INV|table', 'violation', '', 'engine/unsafe_inventory.json missing', props)]
    inv, sites = collect(FA)
    # per-module totals tolerate moves between functions of a module
    tab_mod = collections.Counter()
    for k, cs in table.items():
        for c, n in cs.items():
            tab_mod[(module_of(k), c)] += n
    cur_mod = collections.Counter()
    for k, cs in inv.items():
        for c, n in cs.items():
            cur_mod[(module_of(k), c)] += n
    for k in sorted(inv):
        for c, n in sorted(inv[k].items()):
            allowed = table.get(k, {}).get(c, 0)
            key = 'R-INV|%s|%s' % (k, c)
            if n <= allowed:
                out.append(Inst('R-INV', key, 'ok', sites[(k, c)][0][2].get('line', ''), '%d unsafe call site(s), all in the reviewed inventory' % n, props, nontrivial=True))
                continue
            extra = sites[(k, c)]
            undischarged = [s for s in extra if not locally_discharged(*s)]
            if len(undischarged) <= allowed:
                out.append(Inst('R-INV', key, 'ok', extra[0][2].get('line', ''), 'new unchecked slice access is dominated by `index < len` of the same slice', props))
            elif cur_mod[(module_of(k), c)] <= tab_mod[(module_of(k), c)]:
                out.append(Inst('R-INV', key, 'note', extra[0][2].get('line', ''), 'unsafe call site moved between functions of %s (module total unchanged)' % module_of(k), props, nontrivial=False))
            else:
                out.append(Inst('R-INV', key, 'violation', undischarged[-1][2].get('line', ''),
                                'safe function `%s` performs %d call(s) of unsafe `%s`, the reviewed inventory has %d: a new unchecked operation whose safety obligation is not discharged locally (no dominating `index < len`) and is not classified' % (
                                    k.split('::')[-1], n, c, allowed), props,
                                sample={'args': [show(norm(undischarged[-1][0].operand_term(a)))[:100] for a in undischarged[-1][2]['args']]}))
    return out
