"""Generic necessary conditions that are not tied to one data structure:
R-GUSE  guard before use: a checked API method never indexes storage by an argument before that argument was tested
R-WRAP  no wrapping / overflowing shift by a computed amount that is not bounded by the word size
R-RNG   no exclusive range that ends at the maximum of an integer type (the last value is never visited)
R-REMC  the remainder of a length modulo a chunk size is not used as the fill of the last chunk (it is 0 for a full chunk)"""
import re

from .core import *
from .report import Inst
from .r_arith import props_of_module, INT_W


def _index_sites(F):
    """(block, index operand, line) of every bounds-checked indexing in F"""
    for bi, b in enumerate(F.blocks):
        if bi not in F.reach:
            continue
        t = b['t']
        if t['k'] == 'assert' and 'bounds' in t.get('msg', {}):
            yield bi, t['msg']['index'], t.get('line', '')
        if t['k'] == 'call' and 'fn' in t['f']:
            fn = t['f']['fn']
            if fn['name'] in ('index', 'index_mut') and len(t['args']) == 2 and not (fn.get('local') or fn.get('crate') == 'qwt'):
                yield bi, t['args'][1], t.get('line', '')


def rule_GUSE(FA):
    from . import r_guard
    out = []
    for (base, name), contract in sorted(r_guard.API.items()):
        cands = r_guard.find_method(FA, base, name)
        if not cands:
            continue
        f = cands[0]
        if f['unsafe']:
            continue
        props = r_guard.PROPS_OF_BASE[base]
        fi = FA.inlined(f)
        for spec in FA.specs(f, deep=True):
            F = FA.fn(fi, spec)
            F.dom()
            for pos, ecls in sorted(contract.items()):
                cls = r_guard.class_for(ecls, spec)
                if cls is None:
                    continue
                P = r_guard.param_term(f, pos)
                bad = None
                n = 0
                for bi, o, line in _index_sites(F):
                    if 'p' not in o:
                        continue
                    tm = norm(F.operand_term(o))
                    if not contains(tm, P):
                        continue
                    n += 1
                    atoms = path_atoms(F, bi)
                    tested = any((a[0] in ('<', '<=', '==', '!=') and (contains(a[1], P) or contains(a[2], P))) or
                                 (a[0] in ('is', 'isnot', 'true') and isinstance(a[1], tuple) and contains(a[1], P)) for a in atoms)
                    if not tested:
                        bad = (line, show(tm)[:60])
                key = 'R-GUSE|%s::%s%s|#%d' % (base, name, spec_key(spec), pos)
                if bad:
                    out.append(Inst('R-GUSE', key, 'violation', bad[0],
                                    '`%s` indexes storage with `%s` before `%s` was tested at all: an argument that the documented guard rejects panics (index out of bounds) instead of yielding None' % (
                                        name, bad[1], P[1]), props))
                elif n:
                    out.append(Inst('R-GUSE', key, 'ok', f['span'], '%d indexing site(s) depend on `%s`, each after a test of it' % (n, P[1]), props))
    return out


def interval(t, depth=0):
    """(lo, hi) of an unsigned integer term from its shape alone (masks, constants, sums); hi = None when unbounded"""
    t = strip_casts(t)
    if not isinstance(t, tuple) or not t or depth > 8:
        return (0, None)
    if t[0] == 'const' and isinstance(t[1], int):
        return (t[1], t[1])
    if t[0] == 'bin':
        op, a, b = t[1], interval(t[2], depth + 1), interval(t[3], depth + 1)
        if op == 'BitAnd':
            his = [x[1] for x in (a, b) if x[1] is not None]
            return (0, min(his)) if his else (0, None)
        if op == 'Rem' and b[1] is not None and b[1] > 0:
            return (0, b[1] - 1)
        if op == 'Add' and a[1] is not None and b[1] is not None:
            return (a[0] + b[0], a[1] + b[1])
        if op == 'Sub' and a[1] is not None and b[1] is not None and a[0] >= b[1]:
            return (a[0] - b[1], a[1] - b[0])
        if op == 'Shr' and a[1] is not None and b[0] == b[1] and b[1] is not None:
            return (a[0] >> b[0], a[1] >> b[0])
    return (0, None)


WRAP_SHIFTS = ('wrapping_shl', 'wrapping_shr', 'overflowing_shl', 'overflowing_shr', 'unchecked_shl', 'unchecked_shr')


def rule_WRAP(FA):
    out = []
    for f in FA.lib_fns():
        F = FA.fn(f)
        for bi, t in F.calls():
            fn = t['f']['fn']
            if fn['name'] not in WRAP_SHIFTS or fn.get('local') or len(t['args']) != 2:
                continue
            amt = strip_casts(norm(F.operand_term(t['args'][1])))
            w = INT_W.get(F.locals[t['dest']['l']], 64) if not t['dest']['proj'] else 64
            pf = FA.closure_parent(f)
            key = 'R-WRAP|%s|%s' % (fn_key(pf), fn['name'])
            props = props_of_module(fn_key(pf))
            if amt[0] == 'const' and amt[1] < w:
                out.append(Inst('R-WRAP', key, 'ok', t.get('line', ''), 'constant amount %d < %d' % (amt[1], w), props))
                continue
            iv = interval(amt)
            if iv[1] is not None and iv[1] < w:
                out.append(Inst('R-WRAP', key, 'ok', t.get('line', ''), 'amount `%s` lies in [%d, %d] by construction' % (show(amt)[:40], iv[0], iv[1]), props))
                continue
            bounded = any(a[0] in ('<', '<=') and strip_casts(a[1]) == amt and a[2][:1] == ('const',) and (a[2][1] < w if a[0] == '<=' else a[2][1] <= w)
                          for a in path_atoms(F, bi))
            if bounded:
                out.append(Inst('R-WRAP', key, 'ok', t.get('line', ''), 'amount bounded below the word size on this path', props))
            else:
                out.append(Inst('R-WRAP', key, 'violation', t.get('line', ''),
                                '`%s` by `%s`, which is not bounded below %d here: the amount is reduced modulo the word size, `1.wrapping_shl(64) - 1` is 0 and not the all-ones mask' % (
                                    fn['name'], show(amt)[:40], w), props))
    if not out:
        out.append(Inst('R-WRAP', 'R-WRAP|none', 'note', '', 'no wrapping / overflowing shift in the library', ['C08'], nontrivial=False))
    return out


def rule_RNG(FA):
    out = []
    maxes = {255: 'u8::MAX', 65535: 'u16::MAX', 4294967295: 'u32::MAX', 18446744073709551615: 'u64::MAX', 127: 'i8::MAX', 32767: 'i16::MAX'}
    for f in FA.lib_fns():
        F = FA.fn(f)
        F.dom()
        for bi, b in enumerate(F.blocks):
            if bi not in F.reach:
                continue
            for s in b['s']:
                rv = s['rv']
                if rv['k'] == 'agg' and rv['kind'].get('adt') == 'std::ops::Range' and len(rv['ops']) == 2:
                    end = strip_casts(norm(F.operand_term(rv['ops'][1])))
                    start = strip_casts(norm(F.operand_term(rv['ops'][0])))
                    if end[0] == 'const' and end[1] in maxes and end[1] != 127 and start[0] == 'const':
                        pf = FA.closure_parent(f)
                        out.append(Inst('R-RNG', 'R-RNG|%s|..%s' % (fn_key(pf), maxes[end[1]]), 'violation', s.get('line', ''),
                                        'exclusive range `%s..%s`: the value %d itself is never visited (byte / symbol %d is skipped)' % (show(start), maxes[end[1]], end[1], end[1]),
                                        props_of_module(fn_key(pf))))
    if not out:
        out.append(Inst('R-RNG', 'R-RNG|none', 'note', '', 'no exclusive range ends at an integer maximum', ['C17'], nontrivial=False))
    return out


def _is_len_term(t):
    """length-like: len()/n/n_bits/position-derived quantity of a container (a field or a len call), not a loop variable"""
    t = strip_casts(t)
    if not isinstance(t, tuple) or not t:
        return False
    if t[0] == 'call' and t[1].split('::')[-1] in ('len',):
        return True
    if t[0] == 'field' and t[2] in ('n', 'n_bits', 'position', 'len'):
        return True
    if t[0] == 'bin' and t[1] == 'Shr' and t[3][:1] == ('const',) and _is_len_term(t[2]):
        return True   # position >> 1
    return False


def rule_REMC(FA):
    """`len & (C-1)` (C a chunk size >= 64) compared by order with a position, or handed to a call as a count: for a full last
    chunk the remainder is 0, not C."""
    out = []
    for f in FA.lib_fns():
        pf = FA.closure_parent(f)
        if pf['name'] in ('push', 'extend', 'append_bits', 'extend_with_zeros', 'new', 'with_capacity', 'build') and False:
            continue
        F = FA.fn(f)
        F.dom()
        # a mutator that advances the length itself uses `len & (C-1)` as the slot of the NEXT element: that is a position
        # inside the line being filled, not the fill of a finished last line
        PF = FA.fn(pf)
        if any(isinstance(e, dict) and e.get('f') in ('n', 'n_bits', 'position', 'len') for b0 in PF.blocks for s0 in b0['s']
               if s0['lhs']['l'] == 1 and s0['lhs']['proj'] for e in s0['lhs']['proj']):
            continue

        def is_rem(t):
            t = strip_casts(t)
            if isinstance(t, tuple) and t[:2] == ('bin', 'BitAnd'):
                for a, b in ((t[2], t[3]), (t[3], t[2])):
                    if a[:1] == ('const',) and isinstance(a[1], int) and a[1] >= 63 and (a[1] & (a[1] + 1)) == 0 and _is_len_term(b):
                        return a[1] + 1
            return None
        def terms_of(o):
            """term of an operand; for a local with several definitions (`let n = if last { len & 255 } else { 256 }`) the
            term of each definition"""
            if 'p' in o and not o['p']['proj']:
                l = o['p']['l']
                ds = [d for d in F.defs.get(l, []) if d[0] in F.reach]
                for _ in range(4):   # look through plain copies of the local
                    if len(ds) == 1 and ds[0][1] == 'assign' and ds[0][2]['k'] in ('use', 'cast') and 'p' in ds[0][2]['a'] and not ds[0][2]['a']['p']['proj']:
                        l = ds[0][2]['a']['p']['l']
                        ds = [d for d in F.defs.get(l, []) if d[0] in F.reach]
                    else:
                        break
                if len(ds) > 1:
                    return [norm(F.rvalue_term(d[2])) for d in ds if d[1] == 'assign']
            return [norm(F.operand_term(o))]
        hits = []
        for bi, b in enumerate(F.blocks):
            if bi not in F.reach:
                continue
            for s_ in b['s']:
                rv = s_['rv']
                if rv['k'] == 'bin' and rv['op'] in ('Lt', 'Le', 'Gt', 'Ge') and not any(m.startswith('debug_assert') for m in s_.get('macros', [])):
                    if any(strip_casts(norm(F.operand_term(o))) == ('const', 0) for o in (rv['a'], rv['b'])):
                        continue    # `tail > 0`: a test for "is there a partial chunk", not a fill
                    for o in (rv['a'], rv['b']):
                        for tm in terms_of(o):
                            c = is_rem(tm)
                            if c:
                                hits.append((s_.get('line', ''), 'compared by order with `%s`' % show(tm)[:50], c))
            t = b['t']
            if t['k'] == 'call' and 'fn' in t['f'] and (t['f']['fn'].get('local') or t['f']['fn'].get('crate') == 'qwt'):
                for a in t['args'][1:]:
                    for tm in terms_of(a):
                        c = is_rem(tm)
                        if c:
                            hits.append((t.get('line', ''), 'passed as a count / position to `%s`' % t['f']['fn']['name'], c))
        # the sound idiom splits the length into `len >> k` FULL chunks plus a tail of `len & (C-1)`: with the quotient in
        # use, a zero remainder means "no partial chunk", which is right
        quot = set()
        for bi, b in enumerate(F.blocks):
            if bi not in F.reach:
                continue
            for s_ in b['s']:
                rv = s_['rv']
                if rv['k'] == 'bin' and rv['op'] in ('Shr', 'Div'):
                    a, c2 = norm(F.operand_term(rv['a'])), strip_casts(norm(F.operand_term(rv['b'])))
                    if c2[:1] == ('const',) and isinstance(c2[1], int) and _is_len_term(a):
                        quot.add((1 << c2[1]) if rv['op'] == 'Shr' else c2[1])
        hits = [h for h in hits if h[2] not in quot]
        for line, what, c in hits[:1]:
            # a dominating test that the remainder is non-zero (or that len is not a multiple) makes the use sound
            out.append(Inst('R-REMC', 'R-REMC|%s' % fn_key(pf), 'violation', line,
                            'the remainder of a length modulo %d is used as the fill of the last chunk (%s): when the length is an exact multiple of %d the last chunk is FULL but the remainder is 0' % (c, what, c),
                            props_of_module(fn_key(pf))))
    if not out:
        out.append(Inst('R-REMC', 'R-REMC|none', 'note', '', 'no length remainder is used as a count', ['C05'], nontrivial=False))
    return out


# ---------------------------------------------------------------- R-PAR

SELF = ('param', 'self')
PUSHES = ('push', 'push_back', 'extend_from_slice', 'insert')


def _self_vec_fields(tm):
    """names of the self fields a container term is (a view of)"""
    return {st[2] for st in subterms(tm) if isinstance(st, tuple) and st[:2] == ('field', SELF) and isinstance(st[2], str)}


def _parallel_fields(FA, base):
    """pairs of fields of `base` that some method indexes with the SAME index term: parallel arrays"""
    pairs = {}
    for f in FA.lib_fns(include_closures=False):
        if f.get('_base') != base:
            continue
        F = FA.fn(FA.inlined(f))
        F.dom()
        by_idx = {}
        for bi, t in F.calls():
            fn = t['f']['fn']
            if fn['name'] not in ('index', 'index_mut', 'get_unchecked', 'get') or len(t['args']) != 2 or fn.get('local'):
                continue
            cont = norm(F.operand_term(t['args'][0]))
            idx = norm(F.operand_term(t['args'][1]))
            if idx[:1] == ('const',):
                continue
            # the container itself (not an element of another indexed container)
            if any(isinstance(st, tuple) and st[:1] == ('call',) and st[1].split('::')[-1] in ('index', 'get_unchecked') for st in subterms(cont)):
                continue
            for fld in _self_vec_fields(cont):
                by_idx.setdefault(idx, set()).add(fld)
        for idx, flds in by_idx.items():
            for a in flds:
                for b in flds:
                    if a < b:
                        pairs.setdefault((a, b), (f['name'], show(idx)[:40]))
    return pairs


def _container_ids(F, o, depth=0):
    """identities of the local container(s) whose contents an operand of the Self aggregate carries (through Some(..))"""
    from .r_misc import _origin_id
    if 'p' not in o or depth > 4:
        return set()
    l = o['p']['l']
    ds = [d for d in F.defs.get(l, []) if d[0] in F.reach]
    out = set()
    if len(ds) <= 1 and not (ds and ds[0][1] == 'assign' and ds[0][2]['k'] == 'agg'):
        out.add(_origin_id(F, l))
        return out
    for d in ds:
        if d[1] == 'assign' and d[2]['k'] == 'agg' and d[2]['ops']:
            for o2 in d[2]['ops']:
                out |= _container_ids(F, o2, depth + 1)
        elif d[1] == 'assign' and d[2]['k'] == 'use' and 'p' in d[2]['a']:
            out |= _container_ids(F, d[2]['a'], depth + 1)
    return out


def rule_PAR(FA):
    """Parallel arrays: two vector fields that a reader indexes with the same index (`qvs[level]`, `prefetch_support[level]`)
    must receive one element per step of the same construction loop.  A push into one of them that is controlled by a
    condition on the element being appended (its length, its content) while the other push is unconditional makes the two
    arrays drift apart: entry k of one no longer describes entry k of the other."""
    from .r_misc import _recv_id
    out = []
    for base, adt in sorted(FA.adts.items()):
        names = [x['name'] for x in adt.get('fields', [])]
        if len(names) < 2:
            continue
        ctors = [f for f in FA.by_base_name.get((base, 'new'), [])]
        if not ctors:
            continue
        seqf = {x['name'] for x in adt['fields'] if 'Vec<' in x['ty'] or 'Box<[' in x['ty']}
        pairs = {k: v for k, v in _parallel_fields(FA, base).items() if k[0] in seqf and k[1] in seqf}
        if not pairs:
            continue
        f = ctors[0]
        props = sorted(set(props_of_module(fn_key(f))) | {'C04'} | ({'C09'} if 'prefetch_support' in seqf else set()))
        G = FA.inlined(f)
        for spec in FA.specs(f, deep=True):
            F = FA.fn(G, spec)
            F.dom()
            owner = FA.canon_type(base) or base
            conts = {}
            for bi, b in enumerate(F.blocks):
                if bi not in F.reach:
                    continue
                for st in b['s']:
                    rv = st['rv']
                    if rv['k'] == 'agg' and rv['kind'].get('adt') == owner:
                        for i, o in enumerate(rv['ops']):
                            if i < len(names):
                                conts.setdefault(names[i], set()).update(_container_ids(F, o))
            pushes = {}
            for bi, t in F.calls():
                if t['f']['fn']['name'] in PUSHES and t['args']:
                    rid = _recv_id(F, t['args'][0])
                    if rid is not None:
                        pushes.setdefault(rid, []).append((bi, t))
            for (a, b), (reader, idx) in sorted(pairs.items()):
                key = 'R-PAR|%s|%s,%s%s' % (base, a, b, spec_key(spec))
                pa = [x for c in conts.get(a, ()) for x in pushes.get(c, [])]
                pb = [x for c in conts.get(b, ()) for x in pushes.get(c, [])]
                if not pa or not pb:
                    continue    # one of the two is not built by appends in this configuration
                if len(pa) != 1 or len(pb) != 1:
                    out.append(Inst('R-PAR', key, 'note', f['span'], '`%s` and `%s` are indexed together in `%s` but their appends were not both found in the constructor (%d / %d): not decided' % (a, b, reader, len(pa), len(pb)), props))
                    continue
                (ba, ta), (bb_, tb) = pa[0], pb[0]
                A = set(path_atoms(F, ba))
                B = set(path_atoms(F, bb_))
                bad = None
                for (xa, xb, na, nb, tn) in ((A, B, a, b, tb), (B, A, b, a, ta)):
                    extra = [at for at in xb - xa if not all(_const_like(x) for x in at[1:])
                             and not any(isinstance(st, tuple) and st[:1] == ('call',) and st[1].split('::')[-1] in ('next', 'next_back')
                                         for x in at[1:] if isinstance(x, tuple) for st in subterms(x))]   # loop control of an inlined helper
                    extra.sort(key=lambda at: len(fmt_atom(at)))
                    if not extra:
                        continue
                    # the pushed element of either array: a condition on IT is data-dependent
                    vals = set()
                    for t_ in (ta, tb):
                        for o in t_['args'][1:]:
                            vals |= {st for st in subterms(norm(F.operand_term(o))) if isinstance(st, tuple) and st[:1] in (('call',), ('field',)) and not _const_like(st)}
                    for at in extra:
                        if any(contains(x, v) for x in at[1:] if isinstance(x, tuple) for v in vals):
                            bad = (tn.get('line', ''), nb, na, fmt_atom(at))
                            break
                    if bad:
                        break
                    out.append(Inst('R-PAR', key + '|cond', 'note', tn.get('line', ''), 'the append to `%s` is under a condition (%s) the append to `%s` is not under; it does not depend on the appended element: not decided' % (nb, fmt_atom(extra[0])[:60], na), props))
                if bad:
                    out.append(Inst('R-PAR', key, 'violation', bad[0],
                                    '`%s` and `%s` are indexed with the same index (`%s` in `%s`), but the constructor appends to `%s` only when `%s`, a condition on the appended element itself, and to `%s` on every step: the arrays drift apart' % (
                                        a, b, idx, reader, bad[1], bad[3][:70], bad[2]), props))
                else:
                    out.append(Inst('R-PAR', key, 'ok', f['span'], '`%s` and `%s` (indexed together in `%s`) are appended under the same conditions, once per step' % (a, b, reader), props))
    if not out:
        out.append(Inst('R-PAR', 'R-PAR|none', 'note', '', 'no pair of fields indexed with one index', ['C09'], nontrivial=False))
    return out


def _const_like(t):
    if not isinstance(t, tuple):
        return True
    if t[:1] == ('const',):
        return True
    if t[:1] in (('cast',), ('un',)):
        return all(_const_like(x) for x in t[1:] if isinstance(x, tuple))
    if t[:1] == ('bin',):
        return _const_like(t[2]) and _const_like(t[3])
    return False
