"""Rule instances, known findings, evidence files."""
import json
import os
import time

VERIF = os.path.dirname(os.path.dirname(os.path.dirname(os.path.abspath(__file__))))


class Inst:
    """One evaluated rule instance.

    status: 'ok' (obligation found and holds), 'violation', 'note' (reported, no verdict)
    key:    '<rule>|<function or type>|<instance detail>'  -- no line numbers, used for known findings
    nontrivial: the obligation was non-vacuous (a guard / term / field was found and compared)
    """

    def __init__(self, rule, key, status, where='', detail='', props=(), nontrivial=True, sample=None):
        self.rule = rule
        self.key = key
        self.status = status
        self.where = where
        self.detail = detail
        self.props = set(props)
        self.nontrivial = nontrivial
        self.sample = sample

    def to_json(self):
        d = {'rule': self.rule, 'key': self.key, 'status': self.status, 'where': self.where, 'detail': self.detail}
        if self.sample is not None:
            d['extracted'] = self.sample
        return d

    def __repr__(self):
        return '%s %s %s %s' % (self.status.upper(), self.key, self.where, self.detail)


def load_known():
    """known_findings.jsonl: {"property","key","what"} records plus 'fixed:' comment lines."""
    path = os.path.join(VERIF, 'known_findings.jsonl')
    known = {}
    if os.path.exists(path):
        for line in open(path):
            line = line.strip()
            if not line or not line.startswith('{'):
                continue
            r = json.loads(line)
            known[(r['property'], r['key'])] = r['what']
    return known


def write_evidence(prop, tier, level, seed, wall, insts, violations, extra, assumptions):
    evaluated = [i for i in insts if i.status in ('ok', 'violation')]
    distinct = len({i.key for i in evaluated if i.nontrivial})
    samples = [i.to_json() for i in insts if i.status == 'violation'][:10]
    seen_rules = set()
    for i in evaluated:
        if i.rule not in seen_rules or len(samples) < 12:
            if i.to_json() not in samples:
                samples.append(i.to_json())
            seen_rules.add(i.rule)
        if len(samples) >= 40:
            break
    by_rule = {}
    for i in insts:
        d = by_rule.setdefault(i.rule, {'ok': 0, 'violation': 0, 'note': 0})
        d[i.status] = d.get(i.status, 0) + 1
    cov = {
        'evaluations': len(evaluated),
        'distinct_nontrivial': distinct,
        'rule': extra.pop('rule_text', ''),
        'samples': samples,
        'explanation': extra.pop('explanation', ''),
        'instances_by_rule': by_rule,
        'notes': [i.to_json() for i in insts if i.status == 'note'][:30],
    }
    cov.update(extra)
    ev = {
        'property_id': prop,
        'tier': tier,
        'seed': seed,
        'level': level,
        'coverage': cov,
        'assumptions': assumptions,
        'wall_s': round(wall, 3),
        'violations': violations,
    }
    d = os.path.join(VERIF, 'evidence')
    os.makedirs(d, exist_ok=True)
    tmp = os.path.join(d, prop + '.json.tmp')
    with open(tmp, 'w') as fh:
        json.dump(ev, fh, indent=1, sort_keys=True)
        fh.write('\n')
    os.replace(tmp, os.path.join(d, prop + '.json'))


def write_replay(prop, tier, insts, tree_key):
    d = os.path.join(VERIF, '.cache', 'replay')
    os.makedirs(d, exist_ok=True)
    path = os.path.join(d, '%s-%s.json' % (prop, tier))
    with open(path, 'w') as fh:
        json.dump({'property': prop, 'tier': tier, 'tree': tree_key, 'time': time.time(),
                   'violations': [i.to_json() for i in insts]}, fh, indent=1)
    return path
