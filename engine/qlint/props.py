"""Property -> rules, floors, texts.  Rules are looked up lazily so a property only runs what it needs."""
import importlib

RULES = {
    # rule id: (module, function, needs)   needs: 'default' -> Facts(default); 'all' -> dict of Facts
    'R-G': ('r_guard', 'rule_G', 'default'),
    'R-SIB': ('r_guard', 'rule_SIB', 'default'),
    'R-TW': ('r_guard', 'rule_TW', 'default'),
    'R-UNS': ('r_guard', 'rule_UNS', 'default'),
}

_cache = {}


def run_rule(rule, facts, tier):
    if rule in _cache:
        return _cache[rule]
    mod, fn, needs = RULES[rule]
    m = importlib.import_module('qlint.' + mod)
    f = getattr(m, fn)
    if needs == 'default':
        res = f(facts['default'])
    else:
        res = f(facts)
    _cache[rule] = res
    return res


def thorough_extras(prop, facts, repo):
    return [], {}


COMMON_ASSUMPTIONS = [
    'rustc (MIR construction, trait solving, layout), std (Vec/slice bounds checks, Option) are trusted',
    'only the lib target of crate qwt on the host target triple is analysed (configs default, nofeat, rel)',
    'generic code is analysed once, generically; trait calls on type parameters resolve to every impl in the crate',
]

G_TEXT = ('R-G: for every checked query method in the contract table (taken from the trait docs in src/lib.rs) and every '
          'const-generic specialisation, every accepting return (Some(..) / delegation) must be dominated by branch '
          'conditions containing the contract atom for each argument: index P<LEN, prefix P<=LEN, sym3 P<=3, symT P<=stored '
          'largest symbol, coded idx(P)<len(table) and table[idx].len!=0, occ P<count. LEN is the summary of the type\'s own '
          'len(). debug_assert conditions are not validation. ')
SIB_TEXT = ('R-SIB: sibling methods (rank / rank_prefetch / select of one tree; rank/select/occs/occs_smaller of RSQVector; '
            'same-named readers of BitVector and BitVectorMut) must accept an argument under the same set of atoms. ')

PROPERTIES = {}


def _p(pid, rules, level, rule_text, explanation, floors=None, not_decided='', assumptions=None, trusted_base=None):
    PROPERTIES[pid] = {
        'rules': rules, 'level': level, 'rule_text': rule_text, 'explanation': explanation,
        'floors': floors or {}, 'not_decided': not_decided,
        'assumptions': COMMON_ASSUMPTIONS + (assumptions or []),
        'trusted_base': trusted_base or [],
    }


_p('C01', ['R-G', 'R-SIB'], 'other', G_TEXT + SIB_TEXT,
   'Static analysis of MIR facts of the current tree: decides the validation clauses of QWaveletTree '
   '(get/rank/rank_prefetch/select) -- necessary conditions of the property, not the input/output behaviour.',
   floors={'R-G': 6, 'R-SIB': 5},
   not_decided='that ranks/offsets compose to the right count and position; sigma/n_levels arithmetic; stable partition')
NOT_APPLICABLE = {}
