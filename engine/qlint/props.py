"""Property -> rules, floors, texts.  Rules are looked up lazily so a property only runs what it needs."""
import importlib
import json
import os

RULES = {
    # rule id: (module, function, needs)   needs: 'default' -> Facts(default); 'all' -> dict of Facts by config
    'R-G': ('r_guard', 'rule_G', 'default'),
    'R-SIB': ('r_guard', 'rule_SIB', 'default'),
    'R-TW': ('r_guard', 'rule_TW', 'default'),
    'R-UNS': ('r_guard', 'rule_UNS', 'default'),
    'R-E': ('r_state', 'rule_E', 'default'),
    'R-O': ('r_arith', 'rule_O', 'default'),
    'R-W': ('r_arith', 'rule_W', 'default'),
    'R-DA': ('r_debug', 'rule_DA', 'default'),
    'R-DBG': ('r_debug', 'rule_DBG', 'all'),
    'R-SER': ('r_types', 'rule_SER', 'default'),
    'R-AUTO': ('r_types', 'rule_AUTO', 'default'),
    'R-BOX': ('r_types', 'rule_BOX', 'default'),
    'R-EFF': ('r_effects', 'rule_EFF', 'default'),
    'R-PF': ('r_effects', 'rule_PF', 'all'),
    'R-IT': ('r_misc', 'rule_IT', 'default'),
    'R-NON': ('r_misc', 'rule_NON', 'default'),
    'R-MSK': ('r_misc', 'rule_MSK', 'default'),
    'R-DAR': ('r_misc', 'rule_DAR', 'default'),
    'R-LVL': ('r_misc', 'rule_LVL', 'default'),
    'R-DEL': ('r_misc', 'rule_DEL', 'default'),
    'R-SPC': ('r_misc', 'rule_SPC', 'default'),
    'R-LAY': ('r_layout', 'rule_LAY', 'default'),
    'R-TAB': ('r_layout', 'rule_TAB', 'default'),
    'R-SPLIT': ('r_layout', 'rule_SPLIT', 'default'),
    'R-BITS': ('r_arith', 'rule_BITS', 'default'),
    'R-SMP': ('r_layout', 'rule_SMP', 'default'),
    'R-CMP': ('r_guard', 'rule_CMP', 'default'),
    'R-INV': ('r_unsafe', 'rule_INV', 'default'),
    'R-SELP': ('r_guard', 'rule_SELP', 'default'),
    'R-NEG': ('r_misc', 'rule_NEG', 'default'),
    'R-HINT': ('r_layout', 'rule_HINT', 'default'),
    'R-OBJ': ('r_misc', 'rule_OBJ', 'default'),
    'R-ALL': ('r_misc', 'rule_ALL', 'default'),
    'R-SIG': ('r_misc', 'rule_SIG', 'default'),
    'R-PRE': ('r_misc', 'rule_PRE', 'default'),
    'R-GUSE': ('r_generic', 'rule_GUSE', 'default'),
    'R-WRAP': ('r_generic', 'rule_WRAP', 'default'),
    'R-RNG': ('r_generic', 'rule_RNG', 'default'),
    'R-REMC': ('r_generic', 'rule_REMC', 'default'),
    'R-PAR': ('r_generic', 'rule_PAR', 'default'),
    'R-GIDX': ('r_generic2', 'rule_GIDX', 'default'),
    'R-DNAME': ('r_generic2', 'rule_DNAME', 'default'),
    'R-SIGN': ('r_generic2', 'rule_SIGN', 'default'),
    'R-EMPT': ('r_generic2', 'rule_EMPT', 'default'),
    'R-USE': ('r_generic2', 'rule_USE', 'default'),
    'R-FLT': ('r_generic2', 'rule_FLT', 'default'),
    'R-STAB': ('r_generic2', 'rule_STAB', 'default'),
    'R-CTOR': ('r_generic2', 'rule_CTOR', 'default'),
    'R-OFFS': ('r_generic2', 'rule_OFFS', 'default'),
    'R-CODE': ('r_generic2', 'rule_CODE', 'default'),
    'R-HORD': ('r_generic2', 'rule_HORD', 'default'),
    'R-NCNT': ('r_generic2', 'rule_NCNT', 'default'),
    'R-CGEN': ('r_generic2', 'rule_CGEN', 'default'),
}

_cache = {}


def _guarded(rule, thunk):
    """A rule that meets code it was not written for (and raises) has no verdict: the failure is recorded as a note on every
    property the rule serves and printed on stderr; it is neither a pass of that rule nor an alarm."""
    try:
        res = thunk()
        # a shape the rule looks for and does not find ("anchor lost") is not a defect of the code: the rule has no verdict
        # there.  Instance floors still catch a rule that recognises (almost) nothing at all.
        for i in res:
            if i.status == 'violation' and 'anchor lost' in i.detail:
                i.status = 'note'
                i.nontrivial = False
                i.detail = i.detail.replace('(anchor lost)', '(shape not recognised: not decided)')
        return res
    except Exception as e:   # noqa: BLE001 -- any analysis failure
        import sys
        import traceback
        from .report import Inst
        tb = traceback.format_exc().strip().splitlines()
        sys.stderr.write('qlint: rule %s failed on this tree (%s: %s) -- no verdict from it\n' % (rule, type(e).__name__, e))
        sys.stderr.write('\n'.join(tb[-6:]) + '\n')
        return [Inst(rule, '%s|analysis failed' % rule, 'note', '', 'the rule raised %s: %s (%s): not decided on this tree' % (type(e).__name__, e, tb[-3].strip() if len(tb) >= 3 else ''),
                     sorted(PROPERTIES), nontrivial=False)]


# An instance decided for one property is also an obligation of another one when the second property's statement covers the
# same clause: C18 (pure queries: the answer depends on the structure only) needs every query to stay inside the structure's
# memory and to validate like its twin, which are the guard / twin instances of C04 and C10.
IMPLIED = {'C18': {'R-G': ('C04',), 'R-TW': ('C10',), 'R-GUSE': ('C04',)}}


def relevant(prop, inst):
    if prop in inst.props:
        return True
    via = IMPLIED.get(prop, {}).get(inst.rule, ())
    if '|over-strict' in inst.key:
        return False     # a guard that rejects too much keeps the query inside the structure: not a matter of the implied property
    return any(p in inst.props for p in via)


def run_rule(rule, facts, tier):
    # results are cached on the facts object itself (not by id(): the self-test runners analyse many trees in threads)
    holder = facts['default']
    cache = holder.__dict__.setdefault('_rule_cache', {})
    if rule in cache:
        return cache[rule]
    mod, fn, needs = RULES[rule]
    m = importlib.import_module('qlint.' + mod)
    f = getattr(m, fn)
    res = _guarded(rule, lambda: f(facts['default']) if needs == 'default' else f(facts))
    cache[rule] = res
    return res


def run_rule_config(rule, facts, cfg):
    """Thorough tier: a rule that normally reads the default configuration, run on another build configuration."""
    mod, fn, needs = RULES[rule]
    if needs != 'default' or cfg not in facts:
        return []
    holder = facts[cfg]
    cache = holder.__dict__.setdefault('_rule_cache_cfg', {})
    if rule in cache:
        return cache[rule]
    m = importlib.import_module('qlint.' + mod)
    res = _guarded(rule, lambda: getattr(m, fn)(facts[cfg]))
    cache[rule] = res
    return res


def thorough_extras(prop, facts, repo):
    try:
        from . import thorough
    except ImportError:
        return [], {}
    return thorough.extras(prop, facts, repo)


COMMON_ASSUMPTIONS = [
    'rustc (MIR construction, trait solving, layout, const evaluation) and std (Vec/slice bounds checks, Option) are trusted',
    'only the lib target of crate qwt on the host target triple is analysed, in configurations default, nofeat (no prefetch feature) and rel (no debug assertions, no overflow checks)',
    'generic code is analysed once, generically; trait calls on type parameters resolve to every impl of an exported type in the crate',
    'non-empty construction sets every nullable field non-null, so a non-emptiness test on one field protects accesses that rely on another (confirmed by reading each constructor)',
]

TEXT = {
    'R-G': 'R-G: for every checked query in the contract table (trait docs in src/lib.rs) and every const-generic specialisation, every accepting '
           'return (Some(..) / delegation) is dominated by the contract atom of each argument: index P<LEN, prefix P<=LEN, sym3 P<=3, symT P<=stored '
           'largest symbol, coded idx(P)<len(table) & table[idx].len!=0, occ P<count; LEN = summary of the type\'s own len(); debug_assert is not validation.',
    'R-SIB': 'R-SIB: sibling methods (rank/rank_prefetch/select of a tree; rank/select/occs/occs_smaller of RSQVector; same-named readers of '
             'BitVector/BitVectorMut, RSNarrow/RSWide) accept an argument under the same atoms.',
    'R-TW': 'R-TW: each m / m_unchecked pair has one of the shapes Some(m_unchecked(same args)) / unwrap(m(same args)) / shared helper / same-component delegation; '
            'rank0 defaults are i - rank1(i).',
    'R-UNS': 'R-UNS: every function named *_unchecked is `unsafe fn`.',
    'R-E': 'R-E: from every safe exported method of a struct with a derived Default, along the crate call graph, each unsigned `nullable - k`, '
           'unwrap of a nullable Option field and unchecked/constant index into a nullable slice is dominated by a non-emptiness atom.',
    'R-O': 'R-O: Add/Mul/Sub-const/Shl on a value tainted by an integer argument of a safe exported method needs a dominating bound on that argument '
           '(flow-insensitive taint, followed 3 calls deep; documented-panic mutators and capacity constructors exempt by table).',
    'R-W': 'R-W: in code generic over the element type T: no shift of a narrowed T by a level-dependent amount (w1), no raw symbol carried in a fixed '
           'width integer (w2), no result rebuilt from a fixed-width accumulator (w3), no truncating index into the Huffman code table in the validity test (w2i). w5 (all functions): no stored word narrowed by `as` and then shifted right by a computed amount.',
    'R-DA': 'R-DA: every debug_assert atom in an unchecked path equals or follows from the documented precondition (contract table + accept condition '
            'of the checked twin); negation of a conjunct or an extra constraint on an argument is a violation.',
    'R-DBG': 'R-DBG: configurations default (debug assertions, overflow checks) and rel (neither) contain the same functions calling the same callees '
             'once debug_assert!-expanded code is removed; no cfg!(..) branch outside assertion macros.',
    'R-SER': 'R-SER: every ADT in the field-containment closure of the public structures implements Serialize/Deserialize/PartialEq/Clone and the impl '
             'bodies cover every field (serialize_field names, next_element count, projections in eq/clone); field types are in the round-trippable set.',
    'R-AUTO': 'R-AUTO: no field in that closure holds a raw pointer, reference, UnsafeCell/Cell/RefCell/atomic/lock or Rc; no hand-written or negative Send/Sync impl; no static mut.',
    'R-BOX': 'R-BOX: O(n) payload fields are Box<[T]> or a Vec that the constructor shrinks.',
    'R-EFF': 'R-EFF: on the call-graph closure of every &self method of the immutable structures: no assignment through a raw pointer or shared reference, '
             'no ptr::write/copy/swap/transmute/atomic/Cell/lock callee; immutable structures expose no &mut self method.',
    'R-PF': 'R-PF: (a) rank_prefetch_unchecked returns exactly rank_unchecked(self, symbol, i); (b) prefetch_read_NTA only uses wrapping pointer arithmetic and '
            'the prefetch intrinsic, returns (); (c) prefetch_* position arguments only feed arithmetic and prefetch calls; (d) MIR bodies are identical with and '
            'without feature `prefetch` except prefetch_read_NTA.',
    'R-IT': 'R-IT: for every ExactSizeIterator: len() = bound - cursor; every cursor write in next/next_back is dominated by cursor < bound and moves by one; '
            'WTIterator constructors start at (0, len()). No storage access in next/next_back depends on the cursor AFTER its step without a new bound test (store-to-load forwarding on self fields).',
    'R-NON': 'R-NON / R-CONV: a BitVectorMut mutator that overwrites existing bits updates n_ones depending on a read of the old content; both From conversions move all fields name-for-name. The compensation of the cached count is not conditional on the validity answer of a checked accessor that the overwrite itself does not consult.',
    'R-MSK': 'R-MSK: values OR-ed into the two bit planes of a quad line are structurally one bit wide (mask before write); push step = 1 << len() shift; in-line position = (position >> 1) & 255; extend pushes as_() of every element.',
    'R-DAR': 'R-DAR: the reader indexes subblock_inventory with i/D and block_inventory with i/B; every writer branch appends a number of subblock entries that is a function of D; '
             'the u16 store is dominated by span < C <= 2^16; groups are flushed at len == B. Every path that pushes a block_inventory entry also appends to subblock_inventory under the same conditions; block = power-of-two multiple of the sub-block.',
    'R-LVL': 'R-LVL: in the Huffman constructors the level write is dominated by shift <= code.len and the lengths passed to craft_wm_codes are the unmodified output of '
             'Coding::from_frequencies*(BitsPerFragment(k)).code_lengths() with k = 2 (quad) / 1 (binary). The counting pass iterates the plain element iterator of the input (no chunk_by/step_by/filter/dedup adaptor).',
    'R-DEL': 'R-DEL: From<Vec>/FromIterator/new conversion paths return new()/from() of the whole input passed through collection plumbing only.',
    'R-SPC': 'R-SPC: every heap-bearing field flows into the value returned by space_usage_byte() (backward slice); Vec counts capacity; KiB/MiB/GiB divide by 1024^k. A variable-length field of components is never measured through a single element (first/last/[k]).',
    'R-LAY': 'R-LAY: (a) DataLine / SuperblockPlain are 64 bytes, align 64, and the raw u64 view uses size/8 words; (b) packed counters: writer step = reader step = mask width, '
             'fields fit below the absolute counter, 2^w > largest in-block count; (c) hint periods exceed block sizes, duplicated constants agree; computed relative overheads stay under the stated bounds. (d) the public type aliases have the block size / prefetch flag / Huffman shape their names say.',
    'R-SPLIT': 'R-SPLIT: wherever one position is split into quotient and remainder by a power of two (word/bit, line/offset, block/offset, group/sub-group; 30 confirmed sites), the shift/divisor and the mask/modulus agree.',
    'R-BITS': 'R-BITS: builder, rank, rank_prefetch (both phases), select and get of one tree family extract the level fragment with the same mask (3 quad / 1 binary), move the loop-carried shift by the fragment width and rebuild symbols by the same width.',
    'R-SMP': 'R-SMP: select samples of RSSupportPlain: the writer stores the superblock of occurrences 0, N, 2N, ... (tests the counter before incrementing it) and the reader, composed with its caller, looks up slot k / N for the 0-based occurrence k, with the same N. Samples are inclusive superblock ids: the sentinel is len-1 and the reader adds 1 to the next sample.',
    'R-CMP': 'R-CMP: within one function the same two quantities are never compared with two different strictnesses (coarse and linear phase of a search test one predicate).',
    'R-HINT': 'R-HINT: in RSNarrow::new / RSWide::new the counter tested against the hint period already includes the population of the line being scanned (a variable of the numerator is updated from a popcount in a block dominating the test).',
    'R-SELP': 'R-SELP: select of the three trees uses only checked per-level rank/select whose None is propagated with `?` (no *_unchecked level query, no unwrap).',
    'R-NEG': 'R-NEG: where zeros are found by complementing a word (BIT = false), the complement is taken of the stored word itself, never of a shifted or masked value.',
    'R-INV': 'R-INV: per safe API function, the number of sites of each primitive unsafe operation (foreign unsafe fn, unsafe trait method on a type parameter) reached without passing through another safe API function -- private helpers and crate unsafe fns expanded -- does not exceed the reviewed inventory (engine/unsafe_inventory.json, 42 entries / 77 sites), unless the additional slice access is dominated by index < len of the same slice.',
    'R-ALL': 'R-ALL: an iteration in exact chunks (chunks_exact, array_chunks, ..) consumes its remainder or runs over a fixed array whose length is a multiple of the chunk size: no element is skipped.',
    'R-SIG': 'R-SIG: the value the constructor stores in `sigma` (bound of the symbol guard) derives from Iterator::max over a plain element iterator of the input, not from another reduction.',
    'R-PRE': 'R-PRE: where a crate function asserts `p <= C` on entry and a call site guards the same argument by a constant, the two constants agree (caller/callee belief contradiction).',
    'R-GUSE': 'R-GUSE: in every checked API method of the contract table (private helpers inlined) no bounds-checked indexing whose index depends on a contract argument happens before some test of that argument (guard before use).',
    'R-WRAP': 'R-WRAP: no wrapping_/overflowing_/unchecked_ shift by a computed amount that is not bounded below the word size on that path.',
    'R-RNG': 'R-RNG: no exclusive range with constant bounds ends at the maximum of an integer type.',
    'R-GIDX': 'R-GIDX: no bounds-checked index is guarded by a test of the same index against the same length that admits index == length.',
    'R-DNAME': 'R-DNAME: a trait method that is a bare delegation to an inherent method of its type calls the inherent method of the same name when one exists.',
    'R-SIGN': 'R-SIGN: same-named methods of sibling types do not differ in a const argument of their return type.',
    'R-EMPT': 'R-EMPT: is_empty() tests the quantity len() is computed from, at least as finely.',
    'R-USE': 'R-USE: construction and mutation entry points read every input parameter.',
    'R-FLT': 'R-FLT: the word-level primitives do not compute an integer result through floating point.',
    'R-STAB': 'R-STAB: a function named stable_* calls no unstable sort.',
    'R-CTOR': 'R-CTOR: a constructor returns its constant-empty value only under an emptiness test of the input (not `len <= 1`).',
    'R-OFFS': 'R-OFFS: the prefetch phases of rank take the child-range offset from the same per-level counter as rank_unchecked.',
    'R-CODE': 'R-CODE: the content of a prefix code is shifted by an amount computed from that code\'s own length, not from another length of the tree.',
    'R-HORD': 'R-HORD: a sequence built from the iteration of a hash container is sorted in the function that builds it.',
    'R-NCNT': 'R-NCNT: a constructor does not loop over `0..=n` for a count n it records.',
    'R-CGEN': 'R-CGEN: const generic parameters are used: a free function reads its own, a type\'s parameter reaches an associated constant or a body, and generic code does not call a fixed instantiation of its own type.',
    'R-PAR': 'R-PAR: vector fields that a reader indexes with one index receive their elements under the same conditions in the constructor (no append depending on the appended element itself).',
    'R-REMC': 'R-REMC: `len & (C-1)` is never compared by order with a position nor passed as a count: for a full last chunk it is 0.',
    'R-OBJ': 'R-OBJ: a function handed a component by reference (select<BIT>(.., inventories: &Inventories<BIT>)) never reads a field of self of the same type, in its body or its inlined private helpers: the work is done on the object it was given.',
    'R-TAB': 'R-TAB: the compiler-evaluated K_SELECT_IN_BYTE is compared with its definition for all 2048 entries (exhaustive).',
}

PROPERTIES = {}
NOT_APPLICABLE = {}


def _p(pid, rules, level, explanation, not_decided='', assumptions=None, trusted_base=None):
    PROPERTIES[pid] = {
        'rules': rules, 'level': level, 'rule_text': ' '.join(TEXT[r] for r in rules), 'explanation': explanation,
        'floors': {}, 'not_decided': not_decided,
        'assumptions': COMMON_ASSUMPTIONS + (assumptions or []),
        'trusted_base': trusted_base or [],
    }


EXPL = ('Static analysis of the type-checked program (MIR, ADT/impl metadata, evaluated constants) of the current tree in three build '
        'configurations. Decides the structural clauses listed under `rule` -- necessary conditions of the property that are visible in the shape '
        'of the code on every path -- and NOT the input/output behaviour, which quantifies over runtime values. ')

_p('C01', ['R-G', 'R-SIB', 'R-E', 'R-O', 'R-W', 'R-TW', 'R-DEL', 'R-LAY', 'R-BITS', 'R-SPLIT', 'R-SMP', 'R-CMP', 'R-SELP', 'R-SIG', 'R-PRE', 'R-GUSE', 'R-REMC', 'R-PAR', 'R-SER', 'R-GIDX', 'R-DNAME', 'R-EMPT', 'R-USE', 'R-STAB', 'R-CTOR', 'R-OFFS', 'R-NCNT', 'R-CGEN'], 'other',
   EXPL + 'C01: validation of QWaveletTree get/rank/rank_prefetch/select, empty/default state, argument arithmetic, symbol width in builder/partition/readers, construction paths.',
   'that ranks/offsets compose to the right count and position across levels; sigma / n_levels arithmetic; that stable_partition_of_4 is a stable permutation')
_p('C02', ['R-G', 'R-SIB', 'R-E', 'R-O', 'R-W', 'R-LVL', 'R-TW', 'R-DEL', 'R-LAY', 'R-BITS', 'R-SPLIT', 'R-SMP', 'R-SELP', 'R-SIG', 'R-PRE', 'R-GUSE', 'R-PAR', 'R-SER', 'R-GIDX', 'R-DNAME', 'R-EMPT', 'R-USE', 'R-STAB', 'R-CTOR', 'R-CODE', 'R-HORD', 'R-OFFS', 'R-NCNT', 'R-CGEN'], 'other',
   EXPL + 'C02: validity test (symbol has a code) on rank/rank_prefetch/select, its width, empty state, level-write guard and provenance of code lengths, construction paths.',
   'correctness of craft_wm_codes (prefix-freeness, ordering), independence from hash-map tie order, decode-table search, code lengths beyond 16 levels')
_p('C03', ['R-G', 'R-SIB', 'R-E', 'R-O', 'R-W', 'R-LVL', 'R-TW', 'R-DEL', 'R-LAY', 'R-BITS', 'R-SPLIT', 'R-HINT', 'R-SELP', 'R-SIG', 'R-GUSE', 'R-PAR', 'R-SER', 'R-GIDX', 'R-DNAME', 'R-EMPT', 'R-USE', 'R-STAB', 'R-CTOR', 'R-CODE', 'R-HORD', 'R-NCNT'], 'other',
   EXPL + 'C03: validation of WT/HWT get/rank/select in both specialisations, symbol carried in the element type, empty state, level-write guard, construction paths.',
   'wavelet-matrix arithmetic, binwt::craft_wm_codes table bounds for degenerate alphabets (loop-carried indices), tie orders')
_p('C04', ['R-G', 'R-E', 'R-O', 'R-UNS', 'R-SIB', 'R-LAY', 'R-DA', 'R-DBG', 'R-SMP', 'R-CMP', 'R-SELP', 'R-PF', 'R-INV', 'R-DAR', 'R-PRE', 'R-NON', 'R-GUSE', 'R-WRAP', 'R-RNG', 'R-W', 'R-SER', 'R-PAR', 'R-GIDX', 'R-IT'], 'other',
   EXPL + 'C04: every unchecked access is behind the documented guard, empty/default states reach no trap, argument arithmetic is bounded, unchecked API is unsafe, '
   'raw views match layouts.',
   'index arithmetic inside search loops (select_block, select*_subblock, block_predecessor, DArray word scan: sentinel invariants over stored data), CPU feature of _popcnt64, allocation failure')
_p('C05', ['R-G', 'R-SIB', 'R-E', 'R-TW', 'R-LAY', 'R-DEL', 'R-DA', 'R-SPLIT', 'R-SMP', 'R-CMP', 'R-PRE', 'R-GUSE', 'R-REMC', 'R-SER', 'R-GIDX', 'R-DNAME', 'R-EMPT', 'R-USE', 'R-CTOR', 'R-CGEN'], 'other',
   EXPL + 'C05: validation of RSQVector get/rank/select/occs/occs_smaller, packed superblock record (writer/reader agreement), sampling constants, twins.',
   'counter contents, the sampled search, in-block select, per-symbol totals being prefix sums')
_p('C06', ['R-G', 'R-SIB', 'R-E', 'R-TW', 'R-LAY', 'R-DEL', 'R-SPLIT', 'R-CMP', 'R-HINT', 'R-NON', 'R-GUSE', 'R-SER', 'R-GIDX', 'R-DNAME', 'R-EMPT', 'R-SIGN', 'R-USE', 'R-CTOR'], 'other',
   EXPL + 'C06: validation of RSNarrow/RSWide get/rank1/select1/select0, rank0 = i - rank1, empty state, packed counters and hint periods.',
   'counter construction and the hint/linear search')
_p('C07', ['R-DAR', 'R-G', 'R-E', 'R-TW', 'R-DEL', 'R-LAY', 'R-SPLIT', 'R-NEG', 'R-OBJ', 'R-GUSE', 'R-SER', 'R-GIDX', 'R-DNAME', 'R-EMPT', 'R-USE', 'R-CTOR'], 'other',
   EXPL + 'C07: writer/reader agreement on the shared inventories, the u16 narrowing bound, flush trigger, select guards, default state.',
   'the word scan and sign-encoded pointers')
_p('C08', ['R-SIB', 'R-NON', 'R-O', 'R-G', 'R-TW', 'R-LAY', 'R-E', 'R-SPLIT', 'R-CMP', 'R-NEG', 'R-GUSE', 'R-WRAP', 'R-REMC', 'R-IT', 'R-SER', 'R-GIDX', 'R-DNAME', 'R-EMPT', 'R-SIGN', 'R-USE', 'R-CTOR', 'R-DEL'], 'other',
   EXPL + 'C08: BitVector vs BitVectorMut readers validate identically, cached population count depends on overwritten bits, conversions move every field, get_bits arithmetic.',
   'bit-level effect of set_symbol, word reads and position iterators over arbitrary histories')
_p('C09', ['R-PF', 'R-EFF', 'R-SIB', 'R-LAY', 'R-BITS', 'R-SER', 'R-PAR', 'R-OFFS'], 'other',
   EXPL + 'C09: rank_prefetch validates like rank and returns exactly rank_unchecked on the untouched arguments; prefetch addresses use wrapping arithmetic and only reach the '
   'intrinsic; positions feed only hints; bodies are feature-independent.',
   'that the estimates stay within the next level where they are re-used as arguments of approx_rank_unchecked / rank_block_unchecked (an invariant over data)')
_p('C10', ['R-TW', 'R-DA', 'R-DBG', 'R-G', 'R-UNS', 'R-O', 'R-NON', 'R-W', 'R-WRAP', 'R-SER', 'R-PF'], 'other',
   EXPL + 'C10: twin shapes make checked and unchecked values equal by construction; debug assertions equal the documented precondition; build profiles differ only by assertions.',
   'whether the shared unchecked body is itself correct (C01-C08)')
_p('C11', ['R-SER', 'R-AUTO', 'R-EFF', 'R-NON'], 'proof',
   'Proof by construction modulo the trusted derives: obligations = per ADT in the containment closure {impls present, every field serialized, deserialized, compared, cloned, '
   'field types round-trippable}; discharged by reading the MIR of the (derived or hand-written) impl bodies of the current tree. Equal fields => equal value and (queries being pure '
   'functions of the fields, R-EFF) identical answers.',
   'bincode\'s own behaviour on these types, platform usize width',
   trusted_base=['rustc', 'serde_derive (generated code is inspected, its semantics trusted)', 'serde', 'bincode 1.3.3'])
_p('C12', ['R-IT', 'R-E', 'R-REMC', 'R-G', 'R-GIDX'], 'other', EXPL + 'C12: cursor discipline of every ExactSizeIterator; WTIterator template facts from which in-order / reverse-order / exact-length follow by induction.',
   'that get_unchecked(k) returns S[k] (C01-C03); BitVectorBitPositionsIter word scanning')
_p('C13', ['R-MSK', 'R-G', 'R-TW', 'R-DEL', 'R-LAY', 'R-E', 'R-SPLIT', 'R-GUSE', 'R-REMC', 'R-IT', 'R-O', 'R-DA', 'R-SER', 'R-GIDX', 'R-DNAME', 'R-EMPT', 'R-USE', 'R-CTOR'], 'other',
   EXPL + 'C13: two-bit truncation precedes the write, factor-2 agreement of push/len/get, extend pushes every element, get validation.',
   'bit placement inside the line for all 256 positions')
_p('C14', ['R-LAY', 'R-BOX', 'R-PF', 'R-SIG', 'R-NON', 'R-NCNT', 'R-CGEN'], 'other', EXPL + 'C14: layouts and constants from which the relative overheads are computed and compared with the stated bounds; payload fields have no slack.',
   'the level-count formula and allocation totals for all n (loop trip counts)')
_p('C15', ['R-LVL', 'R-LAY', 'R-HORD'], 'other', EXPL + 'C15: levels hold only live codes; optimal lengths used unmodified with the right fragment width.',
   'the numeric bounds n(H0+2), n(H0+1): they follow from Huffman optimality (trusted crate minimum_redundancy) given the decided clauses')
_p('C16', ['R-SPC'], 'other', EXPL + 'C16: every heap-bearing component is accounted; Vec counts capacity; scaled variants divide by 1024^k.',
   'closeness in percent; Huffman table constants')
_p('C17', ['R-TAB', 'R-W', 'R-ALL', 'R-WRAP', 'R-RNG', 'R-FLT', 'R-STAB', 'R-HORD', 'R-CGEN'], 'other', EXPL + 'C17: the in-byte select table is checked exhaustively (2048 entries) against its definition; partitions shift in the element type.',
   'broadword arithmetic of select_in_word(_u128) for all words, popcnt_wide, msb, permutation/stability of partitions, text_remap (numeric facts over all inputs)')
_p('C18', ['R-AUTO', 'R-EFF', 'R-UNS', 'R-G', 'R-TW', 'R-GUSE'], 'proof',
   'Obligations = per field of the containment closure {no interior mutability / raw pointer / shared-ownership type}, per &self query method {no write effect on its call-graph closure}, '
   'per *_unchecked fn {unsafe}. With them rustc\'s auto traits give Send+Sync (also discharged by the type checker on concrete instantiations in the thorough tier witness crate) and '
   'data-race freedom / interleaving independence follow from Sync + no write through shared references.',
   'nothing structural; dynamic stress is a different family', trusted_base=['rustc auto-trait and aliasing rules', 'std'])
_p('C19', ['R-DEL', 'R-W', 'R-SER', 'R-NON', 'R-USE', 'R-CTOR'], 'other',
   EXPL + 'C19: construction paths delegate to new()/from() on the whole input; no width-dependent narrowing; derived Clone/PartialEq cover every field.',
   'injectivity of the encoding (different sequences never equal), equality of answers across Huffman tie orders')

# floors: instance counts measured on the tree after the accepted repairs and confirmed by reading the
# lists (engine/floors.json is committed; a rule that matches fewer instances fails closed)
_fp = os.path.join(os.path.dirname(os.path.abspath(__file__)), '..', 'floors.json')
if os.path.exists(_fp):
    for pid, fl in json.load(open(_fp)).items():
        if pid in PROPERTIES:
            PROPERTIES[pid]['floors'] = fl
