"""Core of qlint: fact loading, CFG / dominators, const-generic specialisation, term builder,
branch-condition atoms, callee resolution and summaries.

Everything here works on the resolved program (MIR facts emitted by engine/facts-driver), never on
source text.  Source positions are carried only for reporting.
"""
import collections
import itertools
import json
import re

CMP = {'Lt': '<', 'Le': '<=', 'Gt': '>', 'Ge': '>=', 'Eq': '==', 'Ne': '!='}
TRAIT_CMP = {'lt': '<', 'le': '<=', 'gt': '>', 'ge': '>=', 'eq': '==', 'ne': '!='}
FLIP = {'<': '>', '<=': '>=', '>': '<', '>=': '<=', '==': '==', '!=': '!='}
NEG = {'<': '>=', '<=': '>', '>': '<=', '>=': '<', '==': '!=', '!=': '==',
       'is': 'isnot', 'isnot': 'is', 'true': 'false', 'false': 'true'}

NO_SUMMARY_NAMES = ('new', 'from', 'from_iter', 'build', 'default', 'with_capacity', 'clone')

INT_TYPES = ('u8', 'u16', 'u32', 'u64', 'u128', 'usize', 'i8', 'i16', 'i32', 'i64', 'i128', 'isize')


def strip_generics(s):
    """quadwt::QWaveletTree<T, RS, X> -> quadwt::QWaveletTree ; a::B::<T>::len -> a::B::len"""
    out = []
    depth = 0
    i = 0
    while i < len(s):
        c = s[i]
        if c == '<':
            if depth == 0 and out[-2:] == [':', ':']:
                out = out[:-2]
            depth += 1
        elif c == '>' and depth > 0 and (i == 0 or s[i - 1] != '-'):
            depth -= 1
        elif depth == 0:
            out.append(c)
        i += 1
    return ''.join(out)


def base_type(s):
    """Type string -> ADT base path without refs and generics."""
    s = s.strip()
    while s.startswith('&'):
        s = s[1:].strip()
        if s.startswith("'"):
            s = s.split(' ', 1)[1] if ' ' in s else s
        if s.startswith('mut '):
            s = s[4:]
    return strip_generics(s)


class _AliasDict(dict):
    """dict keyed by a type path (or a tuple starting with one) that also answers for the path a type had before it was
    moved into another (sub-)module: `qvector::QVectorBuilder` finds `qvector::builder::QVectorBuilder`."""

    def __init__(self, *a, canon=None, default_factory=None, **kw):
        super().__init__(*a, **kw)
        self._canon = canon
        self._df = default_factory

    def _k(self, key):
        if dict.__contains__(self, key) or self._canon is None:
            return key
        if isinstance(key, tuple) and key and isinstance(key[0], str):
            c = self._canon(key[0])
            return (c,) + key[1:] if c else key
        if isinstance(key, str):
            return self._canon(key) or key
        return key

    def get(self, key, default=None):
        k = self._k(key)
        return dict.get(self, k, default)

    def __contains__(self, key):
        return dict.__contains__(self, self._k(key))

    def __getitem__(self, key):
        k = self._k(key)
        if not dict.__contains__(self, k) and self._df is not None:
            v = self._df()
            dict.__setitem__(self, k, v)
            return v
        return dict.__getitem__(self, k)


class Facts:
    def canon_type(self, base):
        """Current path of the type known on the reviewed tree as `base` (same name, possibly another module)."""
        if base in self._adt_paths:
            return base
        last = base.split('::')[-1]
        cands = self._adt_short.get(last, [])
        if len(cands) == 1:
            return cands[0]
        if len(cands) > 1:
            # several types share the name (bitvector::DataLine / qvector::DataLine): longest common module prefix wins
            def common(a, b):
                n = 0
                for x, y in zip(a.split('::'), b.split('::')):
                    if x != y:
                        break
                    n += 1
                return n
            best = sorted(cands, key=lambda c: -common(c, base))
            if common(best[0], base) > common(best[1], base):
                return best[0]
        return None

    def __init__(self, path, config='default'):
        self.path = path
        self.config = config
        with open(path) as fh:
            d = json.load(fh)
        self.raw = d
        self.fns = {f['path']: f for f in d['fns']}
        self._adt_paths = {a['path'] for a in d['adts']}
        self._adt_short = collections.defaultdict(list)
        for a in d['adts']:
            self._adt_short[a['path'].split('::')[-1]].append(a['path'])
        self.adts = _AliasDict({a['path']: a for a in d['adts']}, canon=self.canon_type)
        self.impls = d['impls']
        self.consts = d['consts']
        self.layouts = _AliasDict(d['layouts'], canon=self.canon_type)
        self.statics = d['statics']
        self.aliases = d.get('aliases', {})
        # index for trait-method resolution: (trait, name, base self) -> fn
        self.by_trait = {}
        self.by_trait_name = collections.defaultdict(list)
        self.by_base_name = _AliasDict(canon=self.canon_type, default_factory=list)
        for f in d['fns']:
            if f['kind'] == 'Closure':
                continue
            b = base_type(f['impl_self']) if f['impl_self'] else ''
            f['_base'] = b
            if f['impl_trait'] and f['impl_self'] != 'Self':
                self.by_trait[(f['impl_trait'], f['name'], b)] = f
                self.by_trait_name[(f['impl_trait'], f['name'])].append(f)
            self.by_base_name[(b, f['name'])].append(f)
        # closure creators: closure path -> list of (creator fn path, bb, stmt index, ops)
        self.closure_sites = collections.defaultdict(list)
        for f in d['fns']:
            for bi, b in enumerate(f['blocks']):
                for si, s in enumerate(b['s']):
                    rv = s.get('rv')
                    if rv and rv['k'] == 'agg' and 'closure' in rv['kind']:
                        self.closure_sites[rv['kind']['closure']].append((f['path'], bi, si, rv['ops'], s['lhs']))
        self._fn_cache = {}
        self._summary_cache = {}
        self._callee_cache = {}
        self._reach = None
        self.call_targets = {}
        self._pred_cache = {}

    def const_value(self, name, ty=''):
        """Evaluated value of a named (free or associated) constant, looked up by path."""
        if not hasattr(self, '_const_idx'):
            idx = {}
            for k, v in self.consts.items():
                val = v.get('val')
                if isinstance(val, str):
                    num = int(val)
                    if v.get('ty') in ('f64', 'f32'):
                        import struct
                        num = struct.unpack('<d', struct.pack('<Q', num))[0] if v['ty'] == 'f64' else struct.unpack('<f', struct.pack('<I', num))[0]
                    idx[k] = num
                    idx[strip_generics(k)] = num
            self._const_idx = idx
        idx = self._const_idx
        n = name.strip()
        for cand in (n, strip_generics(n), n.replace('const ', '')):
            if cand in idx:
                return idx[cand]
        # `<Type as Trait>::NAME` / `Type::<G>::NAME`: match by the last two path segments when unique
        tail = strip_generics(n).split('::')[-2:]
        if len(tail) == 2:
            hits = {v for k, v in idx.items() if k.split('::')[-2:] == tail}
            if len(hits) == 1:
                return next(iter(hits))
        return None

    # ---- library scope
    def lib_fns(self, include_derived=False, include_closures=True):
        for p, f in sorted(self.fns.items()):
            if 'perf_and_test_utils' in p:
                continue
            if f['derived'] and not include_derived:
                continue
            if '::_::' in p and not include_derived:
                continue
            if f['kind'] == 'Closure' and not include_closures:
                continue
            yield f

    def fn(self, f, spec=None):
        key = (f['path'], tuple(sorted((spec or {}).items())), f.get('_inlined') is not None, f.get('_policy', ''))
        F = self._fn_cache.get(key)
        if F is None:
            F = Fn(self, f, spec)
            self._fn_cache[key] = F
        return F

    # ---- callee resolution
    def resolve(self, callee):
        """callee fact -> list of candidate local fn records (class-hierarchy over-approximation)."""
        if not (callee.get('local') or callee.get('crate') == 'qwt'):
            return []
        p = callee['path']
        tr = callee['trait']
        name = callee['name']
        if tr:
            st = callee['self_ty']
            b = base_type(st)
            f = self.by_trait.get((tr, name, b))
            if f is not None:
                return [f]
            # generic receiver (type parameter) or projection: every impl of the trait method
            if re.fullmatch(r'[A-Z][A-Za-z0-9]*', st) or '::' not in b:
                cands = [g for g in self.by_trait_name.get((tr, name), [])
                         if self.adts.get(g['_base'], {}).get('exported', True)]
                if p in self.fns:  # default body
                    cands.append(self.fns[p])
                return cands
            if p in self.fns:
                return [self.fns[p]]
            return []
        if p in self.fns:
            return [self.fns[p]]
        full = callee['full']
        if full in self.fns:
            return [self.fns[full]]
        sp = strip_generics(p)
        for q, f in self.fns.items():
            if strip_generics(q) == sp:
                return [f]
        return []

    def callees_of(self, f):
        """Resolved crate-local callees (class-hierarchy approximation) plus closures created."""
        key = (f['path'], f.get('_inlined') is not None, f.get('_policy', ''))
        c = self._callee_cache.get(key)
        if c is None:
            c = []
            for b in f['blocks']:
                t = b['t']
                if t['k'] == 'call' and 'fn' in t['f']:
                    for g in self.resolve(t['f']['fn']):
                        c.append(g['path'])
                for s in b['s']:
                    rv = s.get('rv')
                    if rv and rv['k'] == 'agg' and 'closure' in rv['kind']:
                        c.append(rv['kind']['closure'])
                    # function items passed as values
                    if rv:
                        for o in [rv.get('a'), rv.get('b')] + list(rv.get('ops', [])):
                            if o and 'fn' in o:
                                for g in self.resolve(o['fn']):
                                    c.append(g['path'])
                if t['k'] == 'call':
                    for a in t['args']:
                        if 'fn' in a:
                            for g in self.resolve(a['fn']):
                                c.append(g['path'])
            c = sorted(set(x for x in c if x in self.fns))
            self._callee_cache[key] = c
        return c

    def reachable_from_exported(self):
        """Paths of functions reachable from the exported API (safe or unsafe entry points)."""
        if self._reach is None:
            seen = set()
            st = [f['path'] for f in self.lib_fns(include_derived=True) if f['exported'] and f['kind'] != 'Closure']
            while st:
                p = st.pop()
                if p in seen:
                    continue
                seen.add(p)
                st.extend(self.callees_of(self.fns[p]))
            self._reach = seen
        return self._reach

    def with_closures(self, f):
        """f together with the closures it creates (transitively): scanning rules look at all of them."""
        out = [f]
        seen = {f['path']}
        i = 0
        while i < len(out):
            g = out[i]
            i += 1
            for b in g['blocks']:
                for s in b['s']:
                    rv = s.get('rv')
                    if rv and rv['k'] == 'agg' and 'closure' in rv['kind']:
                        c = self.fns.get(rv['kind']['closure'])
                        if c is not None and c['path'] not in seen:
                            seen.add(c['path'])
                            out.append(c)
        return out

    def closure_parent(self, f):
        """The non-closure function a closure (transitively) belongs to."""
        cur = f
        for _ in range(5):
            if cur['kind'] != 'Closure':
                return cur
            sites = self.closure_sites.get(cur['path'], [])
            if not sites:
                return cur
            cur = self.fns.get(sites[0][0], cur)
        return cur

    def const_params(self, f):
        return [g['name'] for g in f.get('generics', []) if g['kind'] == 'const' and g['ty'] == 'bool']

    def used_const_params(self, f):
        names = set()
        cps = set(self.const_params(f))
        for b in f['blocks']:
            for st in b['s']:
                rv = st.get('rv')
                if rv and rv['k'] == 'use' and 'c' in rv['a'] and rv['a'].get('val') is None and rv['a']['c'] in cps:
                    names.add(rv['a']['c'])
            t = b['t']
            if t['k'] == 'switch' and 'c' in t['d'] and t['d'].get('val') is None and t['d']['c'] in cps:
                names.add(t['d']['c'])
        return sorted(names)

    def deep_used_const_params(self, f, depth=2):
        """Boolean const generics of f that f itself or a crate callee (safe helpers, two levels) branches on."""
        own = set(self.const_params(f))
        used = set(self.used_const_params(f))
        frontier = [f]
        seen = {f['path']}
        for _ in range(depth):
            nxt = []
            for g in frontier:
                for q in self.callees_of(g):
                    if q in seen:
                        continue
                    seen.add(q)
                    h = self.fns[q]
                    if h['unsafe']:
                        continue
                    used |= set(self.used_const_params(h)) & own
                    nxt.append(h)
            frontier = nxt
        return sorted(used)

    def specs(self, f, deep=False):
        if deep:
            cps = self.deep_used_const_params(f)
            for vals in itertools.product([False, True], repeat=len(cps)):
                yield dict(zip(cps, vals))
            return
        cps = self.used_const_params(f)
        for vals in itertools.product([False, True], repeat=len(cps)):
            yield dict(zip(cps, vals))


def spec_key(spec):
    if not spec:
        return ''
    return '[' + ','.join('%s=%s' % (k, str(v).lower()) for k, v in sorted(spec.items())) + ']'


class Fn:
    """One MIR body, optionally specialised on boolean const generics."""

    def __init__(self, facts, f, spec=None):
        self.facts = facts
        self.f = f
        self.path = f['path']
        self.spec = spec or {}
        self.blocks = f['blocks']
        self.names = {int(k): v for k, v in f['names'].items()}
        self.argc = f['argc']
        self.locals = f['locals']
        self.is_closure = f['kind'] == 'Closure'
        self.defs = collections.defaultdict(list)
        for bi, b in enumerate(self.blocks):
            for si, s in enumerate(b['s']):
                if 'lhs' in s and not s['lhs']['proj']:
                    self.defs[s['lhs']['l']].append((bi, 'assign', s['rv'], si))
            t = b['t']
            if t['k'] == 'call' and not t['dest']['proj']:
                self.defs[t['dest']['l']].append((bi, 'call', t, len(b['s'])))
        self.succ = {}
        self.const_switch = {}
        for bi, b in enumerate(self.blocks):
            t = b['t']
            k = t['k']
            if k == 'goto':
                s = [t['to']]
            elif k == 'switch':
                s = [a[1] for a in t['arms']] + [t['else']]
                v = self._const_discr(b, t)
                if v is not None:
                    tgt = None
                    for val, to in t['arms']:
                        if int(val) == v:
                            tgt = to
                    if tgt is None:
                        tgt = t['else']
                    s = [tgt]
                    self.const_switch[bi] = v
            elif k == 'call':
                s = [t['to']] if t['to'] >= 0 else []
            elif k in ('assert', 'drop'):
                s = [t['to']]
            else:
                s = []
            self.succ[bi] = s
        self.pred = collections.defaultdict(list)
        for a, ss in self.succ.items():
            for s in ss:
                self.pred[s].append(a)
        self._dom = None
        self._dbg = None
        self._fw = None
        self._refining = False
        self.reach = None
        self._term_cache = {}

    def _const_discr(self, b, t):
        """Value of a switch discriminant that is a specialised const generic or a literal."""
        d = t['d']
        if 'c' in d:
            if d.get('val') is not None:
                return int(d['val'])
            if d['c'] in self.spec:
                return 1 if self.spec[d['c']] else 0
            return None
        if 'p' in d and not d['p']['proj']:
            l = d['p']['l']
            ds = self.defs.get(l, [])
            if len(ds) == 1 and ds[0][1] == 'assign':
                rv = ds[0][2]
                neg = False
                if rv['k'] == 'un' and rv['op'] == 'Not':
                    neg = True
                    a = rv['a']
                    if 'p' in a and not a['p']['proj']:
                        ds2 = self.defs.get(a['p']['l'], [])
                        if len(ds2) == 1 and ds2[0][1] == 'assign' and ds2[0][2]['k'] == 'use':
                            a = ds2[0][2]['a']
                    v = self._const_val(a)
                elif rv['k'] == 'use':
                    v = self._const_val(rv['a'])
                else:
                    v = None
                if v is not None:
                    return (1 - v) if neg else v
        return None

    def _const_val(self, a):
        if 'c' in a:
            if a.get('val') is not None and a.get('ty') == 'bool':
                return int(a['val'])
            if a['c'] in self.spec:
                return 1 if self.spec[a['c']] else 0
        return None

    # ---------- CFG
    def _refine_enum_switches(self):
        """Prune `match opt { Some(..) => .., None => .. }` when `opt` is, on every reachable definition, a known variant
        (`let codes = if COMPRESSED { Some(..) } else { None }` under a specialisation): the other arm is dead."""
        changed = False
        for bi in sorted(self.reach):
            if bi in self.const_switch:
                continue
            t = self.blocks[bi]['t']
            if t['k'] != 'switch' or 'p' not in t['d'] or t['d']['p']['proj']:
                continue
            ds = [d for d in self.defs.get(t['d']['p']['l'], []) if d[0] in self.reach]
            if len(ds) != 1 or ds[0][1] != 'assign' or ds[0][2]['k'] != 'discr':
                continue
            tm = norm(self.place_term(ds[0][2]['p']))
            if isinstance(tm, tuple) and tm[:1] == ('agg',) and isinstance(tm[1], str) and tm[1].startswith('adt:') and tm[1].rsplit(':', 1)[1].isdigit():
                v = int(tm[1].rsplit(':', 1)[1])
                tgt = None
                for val, to in t['arms']:
                    if int(val) == v:
                        tgt = to
                if tgt is None:
                    tgt = t['else']
                self.succ[bi] = [tgt]
                self.const_switch[bi] = v
                changed = True
        if changed:
            self.pred = collections.defaultdict(list)
            for a, ss in self.succ.items():
                for x in ss:
                    self.pred[x].append(a)
        return changed

    def dom(self):
        if self._dom is None and not self._refining:
            self._refining = True
            try:
                for _ in range(3):
                    self._dom = None
                    self._compute_dom()
                    self._term_cache = {}
                    self._fw = None
                    if not self._refine_enum_switches():
                        break
                    self._dom = None
                if self._dom is None:
                    self._compute_dom()
                    self._term_cache = {}
                    self._fw = None
            finally:
                self._refining = False
        elif self._dom is None:
            self._compute_dom()
        return self._dom

    def _compute_dom(self):
        if self._dom is None:
            n = len(self.blocks)
            reach = set()
            st = [0]
            while st:
                x = st.pop()
                if x in reach:
                    continue
                reach.add(x)
                st.extend(self.succ[x])
            self.reach = reach
            order = sorted(reach)
            dom = {b: set(reach) for b in order}
            dom[0] = {0}
            changed = True
            while changed:
                changed = False
                for b in order:
                    if b == 0:
                        continue
                    ps = [p for p in self.pred[b] if p in reach]
                    new = (set.intersection(*[dom[p] for p in ps]) if ps else set()) | {b}
                    if new != dom[b]:
                        dom[b] = new
                        changed = True
            for b in range(n):
                if b not in reach:
                    dom[b] = set()
            self._dom = dom
        return self._dom

    def reachable(self, bb):
        self.dom()
        return bb in self.reach

    def edge_dominates(self, s, t, b):
        """Does control-flow edge s->t dominate block b?"""
        dom = self.dom()
        if t not in dom[b]:
            return False
        for p in self.pred[t]:
            if p == s or p not in self.reach:
                continue
            if t not in dom[p]:
                return False
        return self.succ[s].count(t) == 1

    def debug_switches(self):
        """Blocks whose switch belongs to a debug_assert!: the switch itself carries the macro, or one of
        its arms runs straight into the assertion's panic."""
        if self._dbg is None:
            out = set()
            for bi, b in enumerate(self.blocks):
                t = b['t']
                if t['k'] != 'switch':
                    continue
                if any(m.startswith('debug_assert') for m in t.get('macros', [])):
                    out.add(bi)
                    continue
                for to in [a[1] for a in t['arms']] + [t['else']]:
                    cur = to
                    for _ in range(6):
                        tt = self.blocks[cur]['t']
                        if tt['k'] == 'call':
                            ms = tt.get('macros', [])
                            if any(m.startswith('debug_assert') for m in ms) and \
                                    (tt['to'] < 0 or any('panic' in m or 'assert' in m for m in ms)):
                                out.add(bi)
                                break
                            if tt['to'] < 0:
                                break
                            cur = tt['to']
                        elif tt['k'] == 'goto' and not self.blocks[cur]['s']:
                            cur = tt['to']
                        else:
                            break
            self._dbg = out
        return self._dbg

    def calls(self):
        self.dom()
        for bi, b in enumerate(self.blocks):
            if bi not in self.reach:
                continue
            t = b['t']
            if t['k'] == 'call' and 'fn' in t['f']:
                yield bi, t

    # ---------- terms
    # ---------- locals holding a struct built in this body (builder objects, possibly behind `&mut self` of an
    # inlined method): a field that is never written after construction reads as the constructor's operand
    def struct_root(self, l, depth=0):
        """local l is (a reference to / a moved copy of) local L -> L"""
        if depth > 8 or 1 <= l <= self.argc:
            return l
        self.dom()
        ds = [d for d in self.defs.get(l, []) if d[0] in self.reach]
        if len(ds) != 1 or ds[0][1] != 'assign':
            return l
        rv = ds[0][2]
        if rv['k'] == 'ref' and all(e == '*' for e in rv['p']['proj']):
            return self.struct_root(rv['p']['l'], depth + 1)
        if rv['k'] == 'use' and 'p' in rv['a'] and all(e == '*' for e in rv['a']['p']['proj']) \
                and self.locals[l].lstrip('&').replace('mut ', '') == self.locals[rv['a']['p']['l']].lstrip('&').replace('mut ', ''):
            return self.struct_root(rv['a']['p']['l'], depth + 1)
        return l

    def _agg_of(self, L, depth=0):
        ds = [d for d in self.defs.get(L, []) if d[0] in self.reach]
        if len(ds) != 1 or depth > 6:
            return None
        if ds[0][1] != 'assign':
            return None
        rv = ds[0][2]
        if rv['k'] == 'agg' and ('adt' in rv['kind'] or 'tuple' in rv['kind']):
            return rv
        if rv['k'] == 'use' and 'p' in rv['a'] and not rv['a']['p']['proj']:
            return self._agg_of(rv['a']['p']['l'], depth + 1)
        return None

    def _field_writes(self):
        """{(root local, field index)} possibly written after construction, and roots whose `&mut` escapes."""
        if self._fw is None:
            w, esc = set(), set()

            def first_field(p):
                for e in p['proj']:
                    if e == '*':
                        continue
                    if isinstance(e, dict) and 'f' in e:
                        return e['i']
                    return None
                return None
            self.dom()
            for bi, b in enumerate(self.blocks):
                if bi not in self.reach:
                    continue
                for s in b['s']:
                    lhs = s.get('lhs')
                    if lhs and lhs['proj']:
                        r = self.struct_root(lhs['l'])
                        fi = first_field(lhs)
                        w.add((r, fi))
                    rv = s.get('rv')
                    if rv and rv['k'] in ('ref', 'rawptr') and (rv.get('mut') or rv['k'] == 'rawptr'):
                        pl = rv['p']
                        fi = first_field(pl)
                        if fi is not None:
                            w.add((self.struct_root(pl['l']), fi))
                    if rv and rv['k'] == 'agg':
                        for o in rv['ops']:
                            if 'p' in o and self.locals[o['p']['l']].startswith('&mut'):
                                esc.add(self.struct_root(o['p']['l']))
                t = b['t']
                if t['k'] == 'call':
                    for a in t['args']:
                        if 'p' in a and not a['p']['proj'] and self.locals[a['p']['l']].startswith('&mut'):
                            esc.add(self.struct_root(a['p']['l']))
                    if t['dest']['proj']:
                        w.add((self.struct_root(t['dest']['l']), first_field(t['dest'])))
            self._fw = (w, esc)
        return self._fw

    def const_field(self, l, fi):
        """operand that field #fi of the struct behind local l was constructed with, when nothing writes it later"""
        L = self.struct_root(l)
        if 1 <= L <= self.argc:
            return None
        agg = self._agg_of(L)
        if agg is None or fi >= len(agg['ops']):
            return None
        w, esc = self._field_writes()
        roots = {L}
        # the aggregate may have been built in a temporary and moved
        cur = L
        for _ in range(6):
            ds = [d for d in self.defs.get(cur, []) if d[0] in self.reach]
            if len(ds) == 1 and ds[0][1] == 'assign' and ds[0][2]['k'] == 'use' and 'p' in ds[0][2]['a'] and not ds[0][2]['a']['p']['proj']:
                cur = ds[0][2]['a']['p']['l']
                roots.add(cur)
            else:
                break
        for r in roots:
            if r in esc or (r, fi) in w or (r, None) in w:
                return None
        return agg['ops'][fi]

    def place_term(self, p, depth=0, at=None):
        if p['proj'] and depth < 12:
            k = 0
            while k < len(p['proj']) and p['proj'][k] == '*':
                k += 1
            if k < len(p['proj']) and isinstance(p['proj'][k], dict) and 'f' in p['proj'][k]:
                o = self.const_field(p['l'], p['proj'][k]['i'])
                if o is not None:
                    base = self.operand_term(o, depth + 1, at)
                    return self._project(base, p['proj'][k + 1:], depth, at)
        base = self.local_term(p['l'], depth, at)
        return self._project(base, p['proj'], depth, at)

    def _project(self, base, proj, depth=0, at=None):
        for e in proj:
            if e == '*':
                if isinstance(base, tuple) and base[0] == 'ref':
                    base = base[1]
                # derefs of params / fields / boxes are transparent
            elif 'f' in e:
                if isinstance(base, tuple) and base[0] == 'closure_env':
                    base = ('upvar', e['i'])
                elif isinstance(base, tuple) and base[:1] == ('agg',) and isinstance(base[1], str) and (base[1].startswith('adt:') or base[1] == 'tuple') \
                        and isinstance(e.get('i'), int) and e['i'] < len(base[2]) and not base[1].startswith('adt:std::option::Option'):
                    base = base[2][e['i']]     # field of a struct / tuple literal built in this body (`LinePos { line, offset }.offset`)
                else:
                    base = ('field', base, e['f'])
            elif 'idx' in e:
                base = ('index', base, self.local_term(e['idx'], depth, at))
            elif 'cidx' in e:
                base = ('index', base, ('const', e['cidx']))
            elif 'variant' in e:
                base = ('variant', base, e['variant'])
            else:
                base = ('proj?', base)
        return base

    def operand_term(self, o, depth=0, at=None):
        if 'p' in o:
            return self.place_term(o['p'], depth, at)
        if 'c' in o:
            if o.get('val') is not None:
                return ('const', int(o['val']))
            if o['c'] in self.spec:
                return ('const', 1 if self.spec[o['c']] else 0)
            v = self.facts.const_value(o['c'], o.get('ty', ''))
            if v is not None:
                return ('const', v)
            return ('cexpr', o['c'])
        if 'fn' in o:
            return ('fn', o['fn']['path'])
        return ('?',)

    def local_term(self, l, depth=0, at=None):
        if self.is_closure and l == 1:
            return ('closure_env',)
        if 1 <= l <= self.argc:
            return ('param', self.names.get(l, '_%d' % l))
        ds = self.defs.get(l, [])
        # ignore definitions in unreachable (specialised-away) blocks
        self.dom()
        ds = [d for d in ds if d[0] in self.reach]
        if len(ds) > 1 and depth <= 14 and all(d[1] == 'assign' for d in ds):
            # the result of an inlined helper with several returns: every definition is a `return` of the same inlined call;
            # as a TERM it is that call on its arguments (the body is inlined for the rules that scan statements, the value keeps
            # the summaries a call has)
            rcs = [self.blocks[d[0]]['s'][d[3]].get('ret_call') for d in ds]
            if all(rc is not None for rc in rcs) and len({rc['site'] for rc in rcs}) == 1:
                rc = rcs[0]
                args = tuple(self.operand_term(a, depth + 1) for a in rc['args'])
                return inline_call(self.facts, rc['fn'], args, self.spec)
        if len(ds) != 1 or depth > 14:
            return ('unknown', self.names.get(l, '_%d' % l), len(ds))
        key = l
        if key in self._term_cache:
            return self._term_cache[key]
        bi, kind, pl, si_ = ds[0]
        if kind == 'assign':
            rv = pl
            t = self.rvalue_term(rv, depth)
            rc = self.blocks[bi]['s'][si_].get('ret_call') if si_ < len(self.blocks[bi]['s']) else None
            if rc is not None and isinstance(t, tuple) and t[:1] == ('unknown',):
                # result of an inlined helper whose return place is assigned on several paths: as a TERM it is that call on
                # its arguments (the body is inlined for the rules that scan statements; the value keeps the summaries a call has)
                args = tuple(self.operand_term(a, depth + 1) for a in rc['args'])
                t = inline_call(self.facts, rc['fn'], args, self.spec)
        else:
            t = self.call_term(pl, depth)
        if depth == 0:
            self._term_cache[key] = t
        return t

    def rvalue_term(self, rv, depth=0):
        k = rv['k']
        if k == 'use':
            return self.operand_term(rv['a'], depth + 1)
        if k == 'ref':
            return ('ref', self.place_term(rv['p'], depth + 1))
        if k == 'rawptr':
            return ('rawptr', self.place_term(rv['p'], depth + 1))
        if k == 'cast':
            return ('cast', rv['to'], self.operand_term(rv['a'], depth + 1))
        if k == 'bin':
            op = rv['op'].replace('WithOverflow', '').replace('Unchecked', '')
            return ('bin', op, self.operand_term(rv['a'], depth + 1), self.operand_term(rv['b'], depth + 1))
        if k == 'un':
            return ('un', rv['op'], self.operand_term(rv['a'], depth + 1))
        if k == 'agg':
            kd = rv['kind']
            if 'adt' in kd:
                tag = 'adt:%s:%d' % (kd['adt'], kd['vi'])
            elif 'closure' in kd:
                tag = 'closure:' + kd['closure']
            else:
                tag = next(iter(kd))
            return ('agg', tag, tuple(self.operand_term(o, depth + 1) for o in rv['ops']))
        if k == 'discr':
            return ('discr', self.place_term(rv['p'], depth + 1))
        if k == 'repeat':
            return ('repeat', self.operand_term(rv['a'], depth + 1), rv['n'])
        return ('rv?', k)

    def call_term(self, t, depth=0):
        fn = t['f'].get('fn')
        args = tuple(self.operand_term(a, depth + 1) for a in t['args'])
        if fn is None:
            return ('callind', args)
        return inline_call(self.facts, fn, args, self.spec)


def strip_ref(t):
    while isinstance(t, tuple) and t and t[0] in ('ref', 'deref'):
        t = t[1]
    return t


def short_callee(fn):
    """Canonical callee name independent of generic-argument spelling."""
    if fn['trait']:
        return '%s::%s' % (fn['trait'].split('::')[-1], fn['name'])
    return strip_generics(fn['path'])


def inline_call(facts, fn, args, spec=None):
    name = fn['name']
    tr = fn['trait']
    args = tuple(args)
    if tr in ('std::cmp::PartialOrd', 'std::cmp::PartialEq') and name in TRAIT_CMP and len(args) == 2:
        return ('cmp', TRAIT_CMP[name], strip_ref(args[0]), strip_ref(args[1]))
    if tr == 'num_traits::AsPrimitive' and name == 'as_':
        to = fn['gargs'][1] if len(fn.get('gargs', [])) > 1 else '?'
        frm = fn['gargs'][0] if fn.get('gargs') else '?'
        return ('as_', to, strip_ref(args[0]), frm)
    if tr in ('std::ops::Shr', 'std::ops::Shl', 'std::ops::BitAnd', 'std::ops::BitOr', 'std::ops::Add',
              'std::ops::Sub', 'std::ops::Mul', 'std::ops::Div', 'std::ops::Rem', 'std::ops::BitXor') and len(args) == 2:
        op = tr.split('::')[-1]
        return ('bin', op, strip_ref(args[0]), strip_ref(args[1]))
    if tr == 'std::ops::Not' and len(args) == 1:
        return ('un', 'Not', strip_ref(args[0]))
    if tr in ('std::ops::Deref', 'std::ops::DerefMut', 'std::convert::AsRef', 'std::borrow::Borrow') and len(args) == 1 \
            and not fn['local']:
        return strip_ref(args[0])
    if fn['path'] in ('std::option::Option::<T>::as_ref', 'std::option::Option::<T>::as_mut',
                      'std::option::Option::<T>::as_deref') and len(args) == 1:
        return strip_ref(args[0])
    if tr == 'std::clone::Clone' and name == 'clone' and len(args) == 1 and not fn['local']:
        return strip_ref(args[0])
    if tr in ('std::convert::Into', 'std::convert::From') and len(args) == 1 and not fn['local'] \
            and len(fn.get('gargs', [])) == 2 and fn['gargs'][0] == fn['gargs'][1]:
        return strip_ref(args[0])
    cands = facts.resolve(fn)
    if len(cands) == 1:
        summ = summary(facts, cands[0], spec)
        if summ is not None:
            return subst(summ, cands[0], args)
        if (cands[0]['locals'][0] == 'bool' or cands[0]['locals'][0].startswith('std::option::Option')) and not cands[0]['unsafe']:
            k = short_callee(fn)
            if not tr:
                facts.call_targets[k] = cands[0]
            elif facts.by_trait.get((tr, name, base_type(fn['self_ty']))) is not None:
                # trait method on a concrete receiver type: usable when the short name denotes one implementation only
                prev = facts.call_targets.get(k, cands[0])
                facts.call_targets[k] = cands[0] if (prev is not None and prev['path'] == cands[0]['path']) else None
    return ('call', short_callee(fn), tuple(strip_ref(a) for a in args))


def summary(facts, f, spec=None):
    """Return-value term of a transparent (straight-line once const generics are fixed, safe, closure-free)
    function, else None."""
    fspec = {k: v for k, v in (spec or {}).items() if k in facts.const_params(f)}
    key = (f['path'], tuple(sorted(fspec.items())))
    cache = facts._summary_cache
    if key in cache:
        return cache[key]
    cache[key] = None
    if f['unsafe'] or len(f['blocks']) > 14 or f['kind'] == 'Closure':
        return None
    if f['name'] in NO_SUMMARY_NAMES:
        return None
    if any(s.get('rv', {}).get('k') == 'agg' and 'closure' in s['rv']['kind'] for b in f['blocks'] for s in b['s']):
        return None
    F = Fn(facts, f, fspec)
    F.dom()
    if any(F.blocks[bi]['t']['k'] == 'switch' and bi not in F.const_switch for bi in F.reach):
        return None
    if len(F.reach) > 8:
        return None
    t = norm(F.local_term(0))
    if has_unknown(t) or term_size(t) > 40:
        return None
    cache[key] = t
    return t


def term_size(t):
    if isinstance(t, tuple):
        return 1 + sum(term_size(x) for x in t)
    return 1


def has_unknown(t):
    if isinstance(t, tuple):
        if t and t[0] in ('unknown', '?', 'rv?', 'proj?', 'callind', 'closure_env'):
            return True
        return any(has_unknown(x) for x in t)
    return False


def subst(t, f, args):
    names = {}
    for k, v in f['names'].items():
        k = int(k)
        if 1 <= k <= f['argc']:
            names[v] = k - 1

    def go(x):
        if isinstance(x, tuple):
            if x and x[0] == 'param':
                idx = names.get(x[1])
                if idx is None and x[1].startswith('_') and x[1][1:].isdigit():
                    idx = int(x[1][1:]) - 1
                if idx is not None and idx < len(args):
                    return strip_ref(args[idx])
            return tuple(go(y) for y in x)
        return x
    return go(t)


def subst_upvars(t, ops):
    def go(x):
        if isinstance(x, tuple):
            if x and x[0] == 'upvar' and x[1] < len(ops):
                return strip_ref(ops[x[1]])
            return tuple(go(y) for y in x)
        return x
    return go(t)


def norm(t):
    """Normal form: refs stripped, checked-arithmetic tuples collapsed, x/2^k == x>>k, integer
    identity casts dropped."""
    if not isinstance(t, tuple) or not t:
        return t
    t = tuple(norm(x) for x in t)
    k = t[0]
    if k in ('ref', 'deref'):
        return t[1]
    if k == 'field' and t[2] == '0' and isinstance(t[1], tuple) and t[1] and t[1][0] in ('bin', 'const'):
        return t[1]
    if k == 'field' and isinstance(t[2], str) and t[2].isdigit() and isinstance(t[1], tuple) and t[1][:1] == ('agg',) and isinstance(t[1][1], str) \
            and (t[1][1].startswith('adt:') or t[1][1] == 'tuple') and not t[1][1].startswith('adt:std::option') and int(t[2]) < len(t[1][2]):
        return t[1][2][int(t[2])]    # positional field of a struct / tuple literal (`Cursor(x).0` is x)
    if k == 'bin' and t[2][:1] == ('const',) and t[3][:1] == ('const',) and len(t[2]) == 2 and len(t[3]) == 2 and isinstance(t[2][1], int) and isinstance(t[3][1], int):
        a, b = t[2][1], t[3][1]
        try:
            v = {'Add': lambda: a + b, 'Sub': lambda: a - b if a >= b else None, 'Mul': lambda: a * b,
                 'Shl': lambda: a << b if b < 256 else None, 'Shr': lambda: a >> b, 'BitAnd': lambda: a & b,
                 'BitOr': lambda: a | b, 'BitXor': lambda: a ^ b, 'Div': lambda: a // b if b else None,
                 'Rem': lambda: a % b if b else None}.get(t[1], lambda: None)()
        except Exception:
            v = None
        if v is not None:
            return ('const', v)
    if k == 'bin' and t[1] == 'Div' and t[3][0] == 'const' and isinstance(t[3][1], int) and t[3][1] > 0 and (t[3][1] & (t[3][1] - 1)) == 0:
        return ('bin', 'Shr', t[2], ('const', t[3][1].bit_length() - 1))
    if k == 'bin' and t[1] == 'Mul' and t[3][0] == 'const' and isinstance(t[3][1], int) and t[3][1] > 0 and (t[3][1] & (t[3][1] - 1)) == 0:
        return ('bin', 'Shl', t[2], ('const', t[3][1].bit_length() - 1))
    if k == 'bin' and t[1] == 'Mul' and t[2][0] == 'const' and isinstance(t[2][1], int) and t[2][1] > 0 and (t[2][1] & (t[2][1] - 1)) == 0:
        return ('bin', 'Shl', t[3], ('const', t[2][1].bit_length() - 1))
    if k == 'cast' and t[2][:1] == ('const',) and t[1] in ('f64', 'f32') and isinstance(t[2][1], (int, float)):
        return ('const', float(t[2][1]))
    if k == 'bin' and t[2][:1] == ('const',) and t[3][:1] == ('const',) and (isinstance(t[2][1], float) or isinstance(t[3][1], float)):
        a, b = float(t[2][1]), float(t[3][1])
        v = {'Add': a + b, 'Sub': a - b, 'Mul': a * b}.get(t[1])
        if t[1] == 'Div' and b != 0:
            v = a / b
        if v is not None:
            return ('const', v)
    if k == 'bin' and t[1] == 'Rem' and t[3][0] == 'const' and isinstance(t[3][1], int) and t[3][1] > 0 and (t[3][1] & (t[3][1] - 1)) == 0:
        return norm(('bin', 'BitAnd', t[2], ('const', t[3][1] - 1)))
    if k == 'bin' and t[1] in ('Add', 'Sub'):
        # (x + c1) - c2, (x - c1) + c2 ...: fold the constants (the value read back after `i += 1` minus 1 is i)
        def split(u):
            if isinstance(u, tuple) and u[:1] == ('bin',) and u[1] in ('Add', 'Sub'):
                a, b = u[2], u[3]
                if b[:1] == ('const',) and isinstance(b[1], int):
                    return a, (b[1] if u[1] == 'Add' else -b[1])
                if u[1] == 'Add' and a[:1] == ('const',) and isinstance(a[1], int):
                    return b, a[1]
            return None
        a, b = t[2], t[3]
        inner = None
        if b[:1] == ('const',) and isinstance(b[1], int) and split(a):
            base, c = split(a)
            inner = (base, c + (b[1] if t[1] == 'Add' else -b[1]))
        elif t[1] == 'Add' and a[:1] == ('const',) and isinstance(a[1], int) and split(b):
            base, c = split(b)
            inner = (base, c + a[1])
        if inner is not None:
            base, c = inner
            if c == 0:
                return base
            return norm(('bin', 'Add', ('const', c), base)) if c > 0 else ('bin', 'Sub', base, ('const', -c))
    if k == 'bin' and t[1] in ('Add', 'Mul', 'BitAnd', 'BitOr', 'BitXor') and repr(t[2]) > repr(t[3]):
        return ('bin', t[1], t[3], t[2])
    if k == 'bin' and t[1] in CMP:
        return ('cmp', CMP[t[1]], t[2], t[3])
    if k == 'cmp':
        op, a, b = t[1], t[2], t[3]
        if op in ('>', '>='):
            return ('cmp', FLIP[op], b, a)
        if op in ('==', '!=') and repr(a) > repr(b):
            return ('cmp', op, b, a)
    return t


def show(t):
    if not isinstance(t, tuple):
        return str(t)
    if not t:
        return '()'
    k = t[0]
    if k == 'param':
        return t[1]
    if k == 'field':
        return show(t[1]) + '.' + t[2]
    if k == 'const':
        return str(t[1])
    if k == 'cexpr':
        return t[1]
    if k in ('bin', 'cmp'):
        return '(%s %s %s)' % (show(t[2]), t[1], show(t[3]))
    if k == 'cast':
        return '(%s as %s)' % (show(t[2]), t[1])
    if k == 'as_':
        return 'as_<%s>(%s)' % (t[1], show(t[2]))
    if k == 'call':
        return '%s(%s)' % (t[1], ', '.join(show(a) for a in t[2]))
    if k == 'index':
        return '%s[%s]' % (show(t[1]), show(t[2]))
    if k == 'un':
        return '%s(%s)' % (t[1], show(t[2]))
    if k == 'unknown':
        return '?%s' % t[1]
    if k == 'upvar':
        return 'upvar#%d' % t[1]
    if k == 'agg':
        return '%s{%s}' % (t[1], ', '.join(show(a) for a in t[2]))
    if k == 'variant':
        return '%s as %s' % (show(t[1]), t[2])
    if k == 'discr':
        return 'discr(%s)' % show(t[1])
    return '(' + ' '.join(show(x) for x in t) + ')'


# ---------------------------------------------------------------- atoms

def canon_atom(op, a, b):
    """Orient comparisons: only <, <=, ==, != survive; (op, lhs, rhs).  Integer constants: x < c is x <= c-1,
    c < x is c+1 <= x."""
    if op in ('>', '>='):
        op, a, b = FLIP[op], b, a
    if op == '<' and isinstance(b, tuple) and b[:1] == ('const',) and isinstance(b[1], int) and b[1] > 0:
        op, b = '<=', ('const', b[1] - 1)
    elif op == '<' and isinstance(a, tuple) and a[:1] == ('const',) and isinstance(a[1], int):
        op, a = '<=', ('const', a[1] + 1)
    if op in ('==', '!=') and repr(a) > repr(b):
        a, b = b, a
    return (op, a, b)


def neg_atom(at):
    op, a, b = at
    if op == 'or':
        return ('and', tuple(neg_atom(x) for x in a), None)
    if op == 'and':
        return ('or', tuple(neg_atom(x) for x in a), None)
    if op in ('<', '<=', '==', '!='):
        return canon_atom(NEG[op], a, b)
    if op in NEG:
        return (NEG[op], a, b)
    return ('not-' + op, a, b)


def term_atoms(t):
    """Boolean term -> list of atoms whose *disjunction* is the term."""
    t = norm(t)
    if isinstance(t, tuple) and t:
        if t[0] == 'cmp':
            return [canon_atom(t[1], t[2], t[3])]
        if t[0] == 'bin' and t[1] == 'BitOr':
            return term_atoms(t[2]) + term_atoms(t[3])
        if t[0] == 'un' and t[1] == 'Not':
            inner = term_atoms(t[2])
            if len(inner) == 1:
                return [neg_atom(inner[0])]
            return [('and', tuple(neg_atom(x) for x in inner), None)]
        if t[0] == 'bin' and t[1] == 'BitAnd':
            return [('and', tuple(one_atom(term_atoms(x)) for x in (t[2], t[3])), None)]
        if t[0] == 'const':
            return [('true' if t[1] else 'false', ('const', t[1]), None)]
    return [('true', t, None)]


def one_atom(atoms):
    return atoms[0] if len(atoms) == 1 else ('or', tuple(atoms), None)


def flatten_conj(atoms):
    out = []
    for a in atoms:
        if a[0] == 'and':
            out.extend(flatten_conj(a[1]))
        else:
            out.append(a)
    return out


def fmt_atom(a):
    op, x, y = a[0], a[1], a[2]
    if op in ('or', 'and'):
        return '(' + (' %s ' % op.upper()).join(fmt_atom(z) for z in x) + ')'
    if y is None:
        return '%s[%s]' % (op, show(x) if isinstance(x, tuple) else x)
    if op in ('is', 'isnot'):
        return '%s %s %s' % (show(x), op, y)
    return '%s %s %s' % (show(x), op, show(y))


def path_atoms(F, bb, include_debug=False, _expand=True, _depth=0):
    """Conjunction of branch conditions that hold whenever control reaches block `bb`:
    for every dominating switch, the condition of the unique out-edge that dominates `bb`."""
    dom = F.dom()
    out = []
    if bb not in F.reach:
        return out
    for s in sorted(dom[bb]):
        t = F.blocks[s]['t']
        if t['k'] == 'assert':
            # checked arithmetic / bounds assertions are not validation
            continue
        if t['k'] != 'switch' or s in F.const_switch:
            continue
        if not include_debug and s in F.debug_switches():
            continue
        targets = [(int(v), to) for v, to in t['arms']]
        els = t['else']
        threaded = _thread_bool(F, s, t, bb, _depth)
        if threaded is not None:
            out.extend(threaded)
            continue
        dterm = norm(F.operand_term(t['d']))
        is_bool = len(targets) == 1 and targets[0][0] == 0 and _is_bool_switch(F, t)
        for v, to in targets:
            if F.edge_dominates(s, to, bb) and (to != bb or True):
                if is_bool:
                    out.extend(flatten_conj([neg_atom(one_atom(term_atoms(dterm)))]))
                else:
                    out.append(('is', dterm, v))
        if F.edge_dominates(s, els, bb) and els not in [to for _, to in targets]:
            if is_bool:
                out.extend(flatten_conj([one_atom(term_atoms(dterm))]))
            else:
                vals = tuple(v for v, _ in targets)
                if len(vals) == 1 and _other_variant(F, t, vals[0]) is not None:
                    out.append(('is', dterm, _other_variant(F, t, vals[0])))
                else:
                    out.append(('isnot', dterm, vals))
    if _expand:
        out = expand_predicates(F.facts, out, 0, F.spec)
        out = [map_atom(a, lambda t_: resolve_payloads(F.facts, t_, F.spec)) if a[0] in ('<', '<=', '==', '!=') else a for a in out]
    out = [a for a in out if not (a[0] == '<=' and a[1] == ('const', 0))]
    return out


def pred_summary(facts, f, spec=None):
    """Conjunction of atoms (over f's parameters) under which a crate-local bool function returns true,
    when its true-returns form a single conjunction; else None (the call stays uninterpreted)."""
    fspec = {k: v for k, v in (spec or {}).items() if k in facts.const_params(f)}
    key = (f['path'], tuple(sorted(fspec.items())))
    if key in facts._pred_cache:
        return facts._pred_cache[key]
    facts._pred_cache[key] = None
    F = Fn(facts, f, fspec)
    F.dom()
    contrib = []
    for bi, b in enumerate(F.blocks):
        if bi not in F.reach:
            continue
        for s in b['s']:
            if 'lhs' in s and s['lhs']['l'] == 0 and not s['lhs']['proj']:
                t = norm(F.rvalue_term(s['rv']))
                if t == ('const', 0):
                    continue
                atoms = list(path_atoms(F, bi, _expand=False))
                if t != ('const', 1):
                    extra = None
                    if has_unknown(t):
                        # `!(a || b || c)` / a boolean built through control flow: thread it
                        rv = s['rv']
                        if rv['k'] == 'un' and rv['op'] == 'Not':
                            extra = value_false_atoms(F, rv['a'])
                        elif rv['k'] == 'use':
                            va = value_true_atoms(F, rv['a'])
                            extra = va if va else None
                    atoms += extra if extra is not None else flatten_conj([one_atom(term_atoms(t))])
                contrib.append(atoms)
        t = b['t']
        if t['k'] == 'call' and t['dest']['l'] == 0 and not t['dest']['proj']:
            atoms = list(path_atoms(F, bi, _expand=False)) + flatten_conj([one_atom(term_atoms(norm(F.call_term(t))))])
            contrib.append(atoms)
    if len(contrib) == 1 and not any(has_unknown(a[1]) or (isinstance(a[2], tuple) and has_unknown(a[2])) for a in contrib[0]):
        facts._pred_cache[key] = contrib[0]
    return facts._pred_cache[key]


def _truth(t):
    return flatten_conj([one_atom(term_atoms(t))])


def closure_apply(facts, clo, args, spec=None):
    """Return-value term of calling the closure aggregate `clo` with `args`, captured variables substituted."""
    if not (isinstance(clo, tuple) and clo[:1] == ('agg',) and isinstance(clo[1], str) and clo[1].startswith('closure:')):
        return None
    cf = facts.fns.get(clo[1][len('closure:'):])
    if cf is None:
        return None
    CF = facts.fn(cf, {k: v for k, v in (spec or {}).items()})
    ret = norm(CF.local_term(0))
    ret = subst_upvars(ret, list(clo[2]))
    ret = subst(ret, cf, [('closure_env',)] + list(args))
    return norm(ret)


def closure_truth(facts, clo, args, spec=None):
    """Conjunction of atoms under which the boolean closure aggregate `clo`, applied to `args`, is true; None if unknown.
    A closure whose body is straight-line gives its term; one built with `&&` / `||` (control flow) goes through its
    predicate summary."""
    c = closure_apply(facts, clo, args, spec)
    if c is not None and not has_unknown(c):
        return _truth(c)
    if not (isinstance(clo, tuple) and clo[:1] == ('agg',) and isinstance(clo[1], str) and clo[1].startswith('closure:')):
        return None
    cf = facts.fns.get(clo[1][len('closure:'):])
    if cf is None:
        return None
    ps = pred_summary(facts, cf, spec)
    if ps is None:
        return None

    def sub(t):
        t = subst_upvars(t, list(clo[2]))
        return norm(subst(t, cf, [('closure_env',)] + list(args)))
    return [map_atom(a, sub) for a in ps]


def _opaque_opt(t):
    """An Option-valued term the algebra cannot open (foreign call such as `to_usize`): Some under the opaque atom
    `discr(t) is 1`, payload in the `if let Some(v)` form."""
    return [([('is', ('discr', t), 1)], ('field', ('variant', t, 'Some'), '0'))]


def opt_view(facts, t, spec=None, depth=0, receiver=False):
    """Option-valued term -> list of (atoms, payload): it is Some(payload) exactly when one of the conjunctions holds.
    Covers Some/None, bool::then/then_some, Option::map/filter/and_then, checked_sub, slice::get and crate helpers;
    None = unknown (an unknown *receiver* of a combinator is kept as an opaque Option)."""
    v = _opt_view(facts, t, spec, depth)
    if v is None and receiver and isinstance(t, tuple) and t and t[0] in ('call', 'field', 'param', 'index'):
        return _opaque_opt(norm(t))
    return v


def _opt_view(facts, t, spec=None, depth=0):
    if depth > 5 or not isinstance(t, tuple) or not t:
        return None
    t = norm(t)
    if t[0] == 'agg' and isinstance(t[1], str) and t[1].startswith('adt:std::option::Option:'):
        return [([], t[2][0])] if t[1].endswith(':1') and t[2] else []
    if t[0] != 'call':
        return None
    name = t[1].split('::')[-1]
    args = t[2]
    is_bool = 'bool' in t[1].split('::')
    is_opt = 'Option' in t[1]
    if is_bool and name == 'then_some' and len(args) == 2:
        return [(_truth(args[0]), args[1])]
    if is_bool and name == 'then' and len(args) == 2:
        v = closure_apply(facts, args[1], [], spec)
        return [(_truth(args[0]), v if v is not None else ('unknown', 'then', 0))]
    if is_opt and name in ('as_ref', 'as_mut', 'copied', 'cloned', 'as_deref', 'as_deref_mut') and args:
        return opt_view(facts, args[0], spec, depth + 1)
    if is_opt and name == 'map' and len(args) == 2:
        inner = opt_view(facts, args[0], spec, depth + 1, receiver=True)
        if inner is None:
            return None
        out = []
        for a, p in inner:
            v = closure_apply(facts, args[1], [p], spec)
            if v is None and isinstance(args[1], tuple) and args[1][:1] == ('fn',):
                v = ('call', args[1][1], (p,))
            out.append((a, v if v is not None else ('unknown', 'map', 0)))
        return out
    if is_opt and name == 'filter' and len(args) == 2:
        inner = opt_view(facts, args[0], spec, depth + 1, receiver=True)
        if inner is None:
            return None
        out = []
        for a, p in inner:
            c = closure_truth(facts, args[1], [p], spec)
            if c is None:
                return None
            out.append((a + c, p))
        return out
    if is_opt and name == 'and_then' and len(args) == 2:
        inner = opt_view(facts, args[0], spec, depth + 1, receiver=True)
        if inner is None:
            return None
        out = []
        for a, p in inner:
            r = closure_apply(facts, args[1], [p], spec)
            v2 = opt_view(facts, r, spec, depth + 1) if r is not None else None
            if v2 is None and isinstance(r, tuple) and r[:1] == ('call',) and not has_unknown(r):
                v2 = _opaque_opt(norm(r))   # an Option-returning call the algebra cannot open: Some exactly when it says so
            if v2 is None:
                return None
            for a2, p2 in v2:
                out.append((a + a2, p2))
        return out
    if name == 'get' and len(args) == 2 and ('slice' in t[1] or 'Vec' in t[1]):
        return [([canon_atom('<', args[1], ('call', 'len', (args[0],)))], ('index', args[0], args[1]))]
    if name == 'checked_sub' and len(args) == 2:
        return [([canon_atom('<=', args[1], args[0])], norm(('bin', 'Sub', args[0], args[1])))]
    tgt = facts.call_targets.get(t[1])
    if tgt is not None and tgt['locals'][0].startswith('std::option::Option'):
        cases = opt_cases(facts, tgt, spec, depth + 1)
        if cases is None:
            return None
        out = []
        for a, p in cases:
            out.append(([map_atom(x, lambda t_: subst(t_, tgt, args)) for x in a], norm(subst(p, tgt, args))))
        return out
    return None


def opt_cases(facts, g, spec=None, depth=0):
    """Every way a crate-local Option-returning helper returns Some: list of (atoms, payload) over its parameters."""
    fspec = {k: v for k, v in (spec or {}).items() if k in facts.const_params(g)}
    key = ('optc', g['path'], tuple(sorted(fspec.items())))
    if key in facts._pred_cache:
        return facts._pred_cache[key]
    facts._pred_cache[key] = None
    if depth > 4:
        return None
    G = facts.fn(g, fspec)
    G.dom()
    out = []

    def add_view(bi, term):
        v = opt_view(facts, term, spec, depth + 1)
        if v is None:
            return False
        pa = list(path_atoms(G, bi))
        for a, p in v:
            out.append((pa + a, p))
        return True
    for bi, b in enumerate(G.blocks):
        if bi not in G.reach:
            continue
        for st in b['s']:
            if st['lhs']['l'] == 0 and not st['lhs']['proj']:
                rv = st['rv']
                if rv['k'] == 'agg' and rv['kind'].get('adt') == 'std::option::Option':
                    if rv['kind']['vi'] == 1:
                        out.append((list(path_atoms(G, bi)), norm(G.operand_term(rv['ops'][0]))))
                elif rv['k'] == 'use' and 'p' in rv['a'] and not rv['a']['p']['proj']:
                    if not add_view(bi, G.local_term(rv['a']['p']['l'])):
                        return None
                else:
                    return None
        t = b['t']
        if t['k'] == 'call' and t['dest']['l'] == 0 and not t['dest']['proj'] and 'fn' in t['f']:
            if t['f']['fn']['trait'] == 'std::ops::FromResidual':
                continue
            if not add_view(bi, G.call_term(t)):
                return None
    for a, p in out:
        if any(has_unknown(x[1]) or (isinstance(x[2], tuple) and has_unknown(x[2])) for x in a if x[0] not in ('or', 'and')):
            return None
    facts._pred_cache[key] = out
    return out


def resolve_payloads(facts, t, spec=None, depth=0):
    """Replace `x?`, `x.unwrap()` and `if let Some(v) = x` payloads by the value itself when the Option algebra knows the
    single way x is Some (`self.occs(s)?` reads as the term `occs` wraps)."""
    if not isinstance(t, tuple) or not t or depth > 6:
        return t
    inner = None
    if t[0] == 'call' and t[1].split('::')[-1] in ('unwrap', 'expect', 'unwrap_unchecked') and len(t[2]) >= 1:
        inner = t[2][0]
    elif t[0] == 'field' and t[2] == '0' and isinstance(t[1], tuple) and t[1] and t[1][0] == 'variant':
        x = t[1][1]
        if t[1][2] == 'Continue' and isinstance(x, tuple) and x and x[0] == 'call' and x[1].split('::')[-1] == 'branch' and x[2]:
            inner = x[2][0]
        elif t[1][2] == 'Some':
            inner = x
    if inner is not None:
        inner = resolve_payloads(facts, inner, spec, depth + 1)
        v = opt_view(facts, inner, spec, depth + 1)
        if v is not None and len(v) == 1 and not has_unknown(v[0][1]):
            return resolve_payloads(facts, v[0][1], spec, depth + 1)
    return tuple(resolve_payloads(facts, x, spec, depth + 1) if isinstance(x, tuple) else x for x in t)


def bool_view(facts, t, spec=None, depth=0):
    """Boolean call term -> conjunction of atoms under which it is true (is_some_and / is_some / map_or(false, ..)), or None."""
    if not (isinstance(t, tuple) and t[:1] == ('call',)) or depth > 5:
        return None
    name = t[1].split('::')[-1]
    args = t[2]
    if 'Option' not in t[1]:
        return None
    if name == 'is_some' and len(args) == 1:
        v = opt_view(facts, args[0], spec, depth + 1, receiver=True)
        return v[0][0] if v is not None and len(v) == 1 else None
    if name == 'is_some_and' and len(args) == 2:
        v = opt_view(facts, args[0], spec, depth + 1, receiver=True)
        if v is None or len(v) != 1:
            return None
        c = closure_truth(facts, args[1], [v[0][1]], spec)
        if c is None:
            return None
        return v[0][0] + c
    if name == 'map_or' and len(args) == 3 and args[1] == ('const', 0):
        v = opt_view(facts, args[0], spec, depth + 1, receiver=True)
        if v is None or len(v) != 1:
            return None
        c = closure_truth(facts, args[2], [v[0][1]], spec)
        if c is None:
            return None
        return v[0][0] + c
    return None


def expand_predicates(facts, atoms, depth=0, spec=None):
    out = []
    for a in atoms:
        if a[0] == 'is' and depth < 2 and isinstance(a[1], tuple) and a[1][:1] == ('discr',):
            inner = a[1][1]
            want = None
            if isinstance(inner, tuple) and inner[:1] == ('call',) and inner[1].split('::')[-1] == 'branch' and inner[2] and a[2] == 0:
                inner, want = inner[2][0], 'some'
            elif a[2] == 1:
                want = 'some'
            if want and isinstance(inner, tuple) and inner[:1] == ('call',):
                tgt = facts.call_targets.get(inner[1])
                if tgt is not None and tgt['locals'][0].startswith('std::option::Option'):
                    ps = opt_summary(facts, tgt, spec)
                    if ps is not None:
                        args = inner[2]
                        sub = [map_atom(x, lambda t_: subst(t_, tgt, args)) for x in ps]
                        out.extend(expand_predicates(facts, sub, depth + 1, spec))
                        out.append(a)
                        continue
                cases = opt_view(facts, inner, spec, depth + 1)
                if cases is not None and len(cases) == 1:
                    out.extend(expand_predicates(facts, cases[0][0], depth + 1, spec))
                    out.append(a)
                    continue
                if cases is not None and len(cases) > 1:
                    out.append(('or', tuple(('and', tuple(c), None) for c, _ in cases), None))
                    out.append(a)
                    continue
        if a[0] == 'true' and isinstance(a[1], tuple) and a[1] and a[1][0] == 'call' and depth < 3:
            bv = bool_view(facts, a[1], spec, depth)
            if bv is not None:
                out.extend(expand_predicates(facts, bv, depth + 1, spec))
                continue
        if a[0] == 'true' and isinstance(a[1], tuple) and a[1] and a[1][0] == 'call' and depth < 2:
            tgt = facts.call_targets.get(a[1][1])
            if tgt is not None:
                ps = pred_summary(facts, tgt, spec)
                if ps is not None:
                    args = a[1][2]
                    sub = [map_atom(x, lambda t_: subst(t_, tgt, args)) for x in ps]
                    out.extend(expand_predicates(facts, sub, depth + 1, spec))
                    continue
        out.append(a)
    return out


def _thread_bool(F, s, t, bb, depth):
    """A boolean that was materialised through control flow (`let bad = a || b || c; if bad {..}`): the switch reads a
    local with several definitions.  On the arm that dominates `bb`, if exactly one definition is compatible with the
    arm's value, control came through that definition: its own path condition holds, and so does its (non-constant)
    value with the arm's polarity."""
    d = t['d']
    if 'p' not in d or d['p']['proj'] or depth > 3:
        return None
    l = d['p']['l']
    if F.locals[l] != 'bool':
        return None
    defs = [x for x in F.defs.get(l, []) if x[0] in F.reach]
    # look through plain copies (`_13 = copy _4`)
    for _ in range(3):
        if len(defs) == 1 and defs[0][1] == 'assign' and defs[0][2]['k'] == 'use' and 'p' in defs[0][2]['a'] and not defs[0][2]['a']['p']['proj']:
            l = defs[0][2]['a']['p']['l']
            defs = [x for x in F.defs.get(l, []) if x[0] in F.reach]
        else:
            break
    if len(defs) < 2 or len(t['arms']) != 1 or int(t['arms'][0][0]) != 0:
        return None
    out = []
    for val, to in ((0, t['arms'][0][1]), (1, t['else'])):
        if to == t['else'] and val == 0:
            continue
        if not F.edge_dominates(s, to, bb):
            continue
        compat = []
        for dd in defs:
            if dd[1] == 'assign' and dd[2]['k'] == 'use' and 'c' in dd[2]['a'] and dd[2]['a'].get('val') is not None:
                if int(dd[2]['a']['val']) == val:
                    compat.append((dd, True))
            else:
                compat.append((dd, False))
        if len(compat) != 1:
            return None if not out else out
        dd, is_const = compat[0]
        if dd[0] == s:
            return None
        out.extend(path_atoms(F, dd[0], _expand=False, _depth=depth + 1))
        if not is_const:
            tm = norm(F.rvalue_term(dd[2])) if dd[1] == 'assign' else norm(F.call_term(dd[2]))
            at = one_atom(term_atoms(tm))
            out.extend(flatten_conj([at if val == 1 else neg_atom(at)]))
    return out if out else None


def value_false_atoms(F, operand):
    """Atoms implied by a boolean operand being FALSE (`!(a || b || c)`): threaded through the only definition compatible
    with false; None when that is not possible."""
    if 'p' in operand and not operand['p']['proj']:
        l = operand['p']['l']
        defs = [x for x in F.defs.get(l, []) if x[0] in F.reach]
        for _ in range(3):
            if len(defs) == 1 and defs[0][1] == 'assign' and defs[0][2]['k'] == 'use' and 'p' in defs[0][2]['a'] and not defs[0][2]['a']['p']['proj']:
                defs = [x for x in F.defs.get(defs[0][2]['a']['p']['l'], []) if x[0] in F.reach]
            else:
                break
        if len(defs) >= 2:
            compat = []
            for dd in defs:
                if dd[1] == 'assign' and dd[2]['k'] == 'use' and 'c' in dd[2]['a'] and dd[2]['a'].get('val') is not None:
                    if int(dd[2]['a']['val']) == 0:
                        compat.append((dd, True))
                else:
                    compat.append((dd, False))
            if len(compat) == 1:
                dd, is_const = compat[0]
                out = list(path_atoms(F, dd[0], _expand=False))
                if not is_const:
                    tm = norm(F.rvalue_term(dd[2])) if dd[1] == 'assign' else norm(F.call_term(dd[2]))
                    out.extend(flatten_conj([neg_atom(one_atom(term_atoms(tm)))]))
                return out
            return None
    t = norm(F.operand_term(operand))
    if has_unknown(t):
        return None
    return flatten_conj([neg_atom(one_atom(term_atoms(t)))])


def value_true_atoms(F, operand):
    """Atoms implied by a boolean operand being true (receiver of `bool::then`): a single definition gives its term;
    a boolean materialised through control flow (`a && b`) is threaded through its only compatible definition."""
    if 'p' in operand and not operand['p']['proj']:
        l = operand['p']['l']
        defs = [x for x in F.defs.get(l, []) if x[0] in F.reach]
        for _ in range(3):
            if len(defs) == 1 and defs[0][1] == 'assign' and defs[0][2]['k'] == 'use' and 'p' in defs[0][2]['a'] and not defs[0][2]['a']['p']['proj']:
                defs = [x for x in F.defs.get(defs[0][2]['a']['p']['l'], []) if x[0] in F.reach]
            else:
                break
        if len(defs) >= 2:
            compat = []
            for dd in defs:
                if dd[1] == 'assign' and dd[2]['k'] == 'use' and 'c' in dd[2]['a'] and dd[2]['a'].get('val') is not None:
                    if int(dd[2]['a']['val']) == 1:
                        compat.append((dd, True))
                else:
                    compat.append((dd, False))
            if len(compat) == 1:
                dd, is_const = compat[0]
                out = list(path_atoms(F, dd[0]))
                if not is_const:
                    tm = norm(F.rvalue_term(dd[2])) if dd[1] == 'assign' else norm(F.call_term(dd[2]))
                    out.extend(flatten_conj([one_atom(term_atoms(tm))]))
                return expand_predicates(F.facts, out, 0, F.spec)
            return []
    t = norm(F.operand_term(operand))
    return expand_predicates(F.facts, flatten_conj([one_atom(term_atoms(t))]), 0, F.spec)


def opt_summary(facts, f, spec=None):
    """Conjunction of atoms under which a crate-local Option-returning helper returns Some (single Some-return)."""
    fspec = {k: v for k, v in (spec or {}).items() if k in facts.const_params(f)}
    key = ('opt', f['path'], tuple(sorted(fspec.items())))
    if key in facts._pred_cache:
        return facts._pred_cache[key]
    facts._pred_cache[key] = None
    F = Fn(facts, f, fspec)
    F.dom()
    contrib = []
    for bi, b in enumerate(F.blocks):
        if bi not in F.reach:
            continue
        for st in b['s']:
            if 'lhs' in st and st['lhs']['l'] == 0 and not st['lhs']['proj']:
                rv = st['rv']
                if rv['k'] == 'agg' and rv['kind'].get('adt') == 'std::option::Option':
                    if rv['kind']['vi'] == 1:
                        contrib.append(list(path_atoms(F, bi, _expand=False)))
                else:
                    contrib.append(None)
        t = b['t']
        if t['k'] == 'call' and t['dest']['l'] == 0 and not t['dest']['proj'] and 'fn' in t['f']:
            if t['f']['fn']['trait'] != 'std::ops::FromResidual':
                contrib.append(None)
    if len(contrib) == 1 and contrib[0] is not None and not any(has_unknown(a[1]) or (isinstance(a[2], tuple) and has_unknown(a[2])) for a in contrib[0]):
        facts._pred_cache[key] = contrib[0]
    return facts._pred_cache[key]


def _is_bool_switch(F, t):
    d = t['d']
    if 'p' in d:
        p = d['p']
        if not p['proj']:
            return F.locals[p['l']] == 'bool'
        last = p['proj'][-1]
        if isinstance(last, dict) and last.get('ty') == 'bool':
            return True
        return False
    if 'c' in d:
        return d.get('ty') == 'bool'
    return False


def _other_variant(F, t, v):
    """For a two-variant enum discriminant switch (Option/Result), the complementary variant."""
    d = t['d']
    if 'p' in d and not d['p']['proj']:
        ds = F.defs.get(d['p']['l'], [])
        if len(ds) == 1 and ds[0][1] == 'assign' and ds[0][2]['k'] == 'discr':
            return 1 - v if v in (0, 1) else None
    return None


def site_condition(facts, F, bb, _depth=0):
    """Accept condition of a program point, looking through closures: for a block inside a closure
    the conditions under which the closure is created (and, for `bool::then`, the receiver) are
    added, with captured variables mapped back to the creator's terms."""
    atoms = list(path_atoms(F, bb))
    if F.is_closure and _depth < 3:
        sites = facts.closure_sites.get(F.path, [])
        if len(sites) == 1:
            cpath, cbi, csi, ops, lhs = sites[0]
            cf = facts.fns.get(cpath)
            if cf is not None:
                # the creator inherits the specialisation of the closure where names coincide
                CF = facts.fn(cf, {k: v for k, v in F.spec.items() if k in facts.const_params(cf)})
                op_terms = [norm(CF.operand_term(o)) for o in ops]
                atoms = [map_atom(a, lambda t: subst_upvars(t, op_terms)) for a in atoms]
                atoms += site_condition(facts, CF, cbi, _depth + 1)
                # consumer: bool::then(receiver, closure)
                if not lhs['proj']:
                    cl = lhs['l']
                    for bi2, t2 in CF.calls():
                        for ai, a in enumerate(t2['args']):
                            if 'p' in a and a['p']['l'] == cl and not a['p']['proj']:
                                fn2 = t2['f']['fn']
                                if fn2['path'].startswith('core::bool::') or fn2['path'].startswith('std::bool::') \
                                        or fn2['path'] in ('bool::then',):
                                    if fn2['name'] == 'then' and ai == 1:
                                        atoms += value_true_atoms(CF, t2['args'][0])
    return atoms


def map_atom(a, fn):
    op, x, y = a
    if op in ('or', 'and'):
        return (op, tuple(map_atom(z, fn) for z in x), y)
    if op in ('is', 'isnot'):
        return (op, norm(fn(x)), y)
    if y is None:
        return (op, norm(fn(x)) if isinstance(x, tuple) else x, y)
    at = canon_atom(op, norm(fn(x)), norm(fn(y)))
    return at


def contains(t, sub):
    if t == sub:
        return True
    if isinstance(t, tuple):
        return any(contains(x, sub) for x in t)
    return False


def subterms(t):
    yield t
    if isinstance(t, tuple):
        for x in t:
            if isinstance(x, tuple):
                for y in subterms(x):
                    yield y


def strip_casts(t):
    while isinstance(t, tuple) and t and t[0] in ('cast', 'as_'):
        t = t[2]
    return t


def fn_key(f):
    """Stable, line-free identity of a function for instance keys: Type[::Trait]::name"""
    if f['kind'] == 'Closure':
        return strip_generics(f['path'].replace('<', '(').replace('>', ')')) if False else re.sub(r'<[^<>]*>', '', re.sub(r'<[^<>]*>', '', f['path']))
    base = f.get('_base') or base_type(f.get('impl_self') or '')
    if f.get('impl_trait'):
        tr = f['impl_trait'].split('::')[-1]
        if base in ('', 'Self'):
            return '%s::%s' % (tr, f['name'])
        return '%s::%s::%s' % (base, tr, f['name'])
    if base:
        return '%s::%s' % (base, f['name'])
    return strip_generics(f['path'])


def inlined_sites(facts, f, spec=None, depth=2, _pre=None, _map=None, _seen=None):
    """Virtual inlining of safe crate-local helpers: yields (G, bb, atoms, to_root) for every reachable block of f and
    of the helpers it calls (up to `depth` levels).  `atoms` are the path conditions of the block conjoined with those
    of the call chain, and `to_root(term)` rewrites a term of G into the parameters of f.  Rules written against one
    function keep working when part of its body is moved into `fn flush_dense(..)`-style helpers."""
    spec = spec or {}
    fspec = {k: v for k, v in spec.items() if k in facts.const_params(f)}
    F = facts.fn(f, fspec)
    F.dom()
    pre = _pre or []
    to_root = _map or (lambda t: t)
    seen = _seen or {f['path']}
    for bi in sorted(F.reach):
        atoms = pre + [map_atom(a, to_root) for a in path_atoms(F, bi)]
        yield F, bi, atoms, to_root
        t = F.blocks[bi]['t']
        if depth > 0 and t['k'] == 'call' and 'fn' in t['f']:
            cands = facts.resolve(t['f']['fn'])
            if len(cands) == 1 and not cands[0]['unsafe'] and cands[0]['path'] not in seen and cands[0]['kind'] != 'Closure' \
                    and not cands[0]['exported'] and summary(facts, cands[0], spec) is None:
                g = cands[0]
                args = [norm(to_root(F.operand_term(a))) for a in t['args']]
                sub = (lambda g_, args_: (lambda tm: norm(subst(tm, g_, args_))))(g, args)
                for item in inlined_sites(facts, g, spec, depth - 1, atoms, sub, seen | {g['path']}):
                    yield item


# ---------------------------------------------------------------- MIR-level inlining of private helpers
def _remap(x, loff, boff, csub):
    """Deep copy of a MIR fact fragment with locals shifted by loff, block targets by boff and the callee's
    const-generic names substituted."""
    if isinstance(x, list):
        return [_remap(y, loff, boff, csub) for y in x]
    if not isinstance(x, dict):
        return x
    if 'l' in x and 'proj' in x and len(x) == 2:
        return {'l': x['l'] + loff,
                'proj': [({'idx': e['idx'] + loff} if isinstance(e, dict) and 'idx' in e else e) for e in x['proj']]}
    if 'c' in x and x.get('val') is None and x['c'] in csub:
        r = csub[x['c']]
        y = dict(x)
        if r in ('true', 'false'):
            y['val'] = '1' if r == 'true' else '0'
            y['ty'] = 'bool'
        else:
            y['c'] = r
        return y
    out = {}
    for k, v in x.items():
        if k == 'fn':
            out[k] = v
        elif k in ('to', 'else') and isinstance(v, int):
            out[k] = v + boff if v >= 0 else v
        elif k == 'arms':
            out[k] = [[a[0], a[1] + boff] for a in v]
        else:
            out[k] = _remap(v, loff, boff, csub)
    return out


def default_inline_policy(g):
    return (not g['exported']) and g['kind'] != 'Closure' and not g['derived'] and len(g['blocks']) <= 400


def inline_body(facts, f, policy=None, max_depth=4, max_blocks=4000):
    """A copy of f's MIR in which every call of a crate-private helper (resolved to exactly one body, not recursive)
    is replaced by the helper's blocks: parameters become ordinary locals assigned from the arguments, `return`
    becomes an assignment of the destination and a jump to the continuation.  Rules that read one anchor function
    keep seeing the same statements when part of it is extracted into helpers or builder structs."""
    policy = policy or default_inline_policy
    blocks = [dict(b, s=list(b['s']), origin=f['path']) for b in f['blocks']]
    locs = list(f['locals'])
    names = {int(k): v for k, v in f['names'].items()}
    depth = {i: 0 for i in range(len(blocks))}
    stack = {i: (f['path'],) for i in range(len(blocks))}
    inlined = []
    bi = 0
    while bi < len(blocks):
        b = blocks[bi]
        t = b['t']
        if t['k'] == 'call' and 'fn' in t['f'] and depth[bi] < max_depth and len(blocks) < max_blocks:
            fn = t['f']['fn']
            cands = facts.resolve(fn) if (fn.get('local') or fn.get('crate') == 'qwt') else []
            if len(cands) == 1 and policy(cands[0]) and cands[0]['path'] not in stack[bi] and cands[0]['blocks'] \
                    and cands[0]['argc'] == len(t['args']):
                g = cands[0]
                loff, boff = len(locs), len(blocks)
                csub = {}
                gens = g.get('generics', [])
                gargs = fn.get('gargs', [])
                if len(gens) == len(gargs):
                    for gp, ga in zip(gens, gargs):
                        if gp['kind'] == 'const':
                            csub[gp['name']] = ga
                locs.extend(g['locals'])
                for k, v in g['names'].items():
                    names[int(k) + loff] = v
                for gi, gb in enumerate(g['blocks']):
                    nb = _remap(gb, loff, boff, csub)
                    nb['origin'] = g['path']
                    if nb['t']['k'] == 'return':
                        if t['to'] >= 0:
                            nb['s'] = nb['s'] + [{'lhs': t['dest'], 'rv': {'k': 'use', 'a': {'p': {'l': loff, 'proj': []}}},
                                                  'line': t.get('line', ''), 'macros': [], 'ret_of': g['path'],
                                                  'ret_call': {'fn': fn, 'args': t['args'], 'site': bi}}]
                            nb['t'] = {'k': 'goto', 'to': t['to']}
                        else:
                            nb['t'] = {'k': 'unreachable'}
                    blocks.append(nb)
                    depth[boff + gi] = depth[bi] + 1
                    stack[boff + gi] = stack[bi] + (g['path'],)
                for k, a in enumerate(t['args']):
                    b['s'].append({'lhs': {'l': loff + 1 + k, 'proj': []}, 'rv': {'k': 'use', 'a': a},
                                   'line': t.get('line', ''), 'macros': [], 'arg_of': g['path']})
                b['t'] = {'k': 'goto', 'to': boff, 'inlined_call': fn, 'line': t.get('line', '')}
                inlined.append(g['path'])
        bi += 1
    out = dict(f)
    out['blocks'] = blocks
    out['locals'] = locs
    out['names'] = {str(k): v for k, v in names.items()}
    out['_inlined'] = sorted(set(inlined))
    return out


def _facts_inlined(self, f, policy=None):
    if f.get('_inlined') is not None:
        return f
    key = (f['path'], getattr(policy, '__name__', '') if policy else '')
    c = self._inl_cache.get(key) if hasattr(self, '_inl_cache') else None
    if not hasattr(self, '_inl_cache'):
        self._inl_cache = {}
    if c is None:
        c = inline_body(self, f, policy)
        c['_policy'] = key[1]
        self._inl_cache[key] = c
    return c


Facts.inlined = _facts_inlined


# ---------------------------------------------------------------- local dataflow (name-free anchors)
def _operand_locals(o):
    out = []
    if o and 'p' in o:
        out.append(o['p']['l'])
        for e in o['p']['proj']:
            if isinstance(e, dict) and 'idx' in e:
                out.append(e['idx'])
    return out


def rv_operands(rv):
    ops = []
    for k in ('a', 'b'):
        if isinstance(rv.get(k), dict):
            ops.append(rv[k])
    ops.extend(rv.get('ops', []))
    if 'p' in rv:
        ops.append({'p': rv['p']})
    return ops


def place_has_field(p, field):
    return any(isinstance(e, dict) and e.get('f') == field for e in p['proj'])


VALUE_PRESERVING_CALLS = ('index', 'index_mut', 'get_unchecked', 'get_unchecked_mut', 'deref', 'deref_mut', 'as_', 'clone',
                          'unwrap', 'unwrap_unchecked', 'get', 'get_mut', 'as_ref', 'as_mut', 'into', 'from', 'iter', 'next',
                          'into_iter', 'copied', 'cloned', 'as_slice', 'as_ptr', 'add', 'read', 'borrow', 'expect', 'branch',
                          'first', 'last', 'to_owned', 'as_mut_slice', 'iter_mut', 'zip', 'enumerate', 'rev', 'skip', 'take',
                          'step_by', 'by_ref', 'peekable', 'chunks', 'chunks_mut', 'chunks_exact', 'split_at', 'split_at_mut',
                          'first_mut', 'last_mut', 'as_mut_ptr', 'offset', 'from_residual', 'into_boxed_slice', 'unwrap_or_default')
ANY_ARG_CALLS = ('zip', 'chain')


def forward_taint(F, seed_place, through_ops=('Shr', 'BitAnd'), seed_locals=()):
    """Locals whose value is extracted from a seed place: copies, casts, references, indexing / unwrapping calls and the
    given bit-extraction operators propagate; other arithmetic ends the flow."""
    F.dom()
    tainted = set(seed_locals)

    def op_t(o):
        if not o or 'p' not in o:
            return False
        return o['p']['l'] in tainted or seed_place(o['p'])
    changed = True
    while changed:
        changed = False
        for bi, b in enumerate(F.blocks):
            if bi not in F.reach:
                continue
            for s in b['s']:
                rv = s.get('rv')
                if not rv:
                    continue
                l = s['lhs']['l']
                if l in tainted:
                    continue
                k = rv['k']
                hit = False
                if k in ('use', 'cast', 'un'):
                    hit = op_t(rv['a'])
                elif k in ('ref', 'rawptr', 'discr'):
                    hit = op_t({'p': rv['p']})
                elif k == 'bin':
                    op = rv['op'].replace('Unchecked', '').replace('WithOverflow', '')
                    if op in through_ops:
                        hit = op_t(rv['a'])
                elif k == 'agg':
                    hit = any(op_t(o) for o in rv['ops']) and 'closure' not in rv['kind']
                if hit:
                    tainted.add(l)
                    changed = True
            t = b['t']
            if t['k'] == 'call' and 'fn' in t['f'] and t['dest']['l'] not in tainted:
                nm = t['f']['fn']['name']
                if nm in VALUE_PRESERVING_CALLS and t['args'] and (op_t(t['args'][0]) or (nm in ANY_ARG_CALLS and any(op_t(a) for a in t['args']))):
                    tainted.add(t['dest']['l'])
                    changed = True
    return tainted


CONTAINER_WRITES = ('push', 'extend', 'insert', 'push_back', 'extend_from_slice', 'resize', 'fill', 'write', 'push_front',
                    'append')


def backward_slice(F, start_locals, through_calls=True):
    """Locals that the given locals are computed from (data dependences only), following moves, arithmetic, calls and the
    contents written into containers / struct locals that are in the slice."""
    F.dom()
    S = set()
    work = list(start_locals)
    writes = collections.defaultdict(list)   # root local -> operands written into it
    for bi, b in enumerate(F.blocks):
        if bi not in F.reach:
            continue
        for s in b['s']:
            lhs = s.get('lhs')
            if lhs and lhs['proj']:
                writes[F.struct_root(lhs['l'])].extend(rv_operands(s['rv']))
        t = b['t']
        if t['k'] == 'call' and 'fn' in t['f'] and t['f']['fn']['name'] in CONTAINER_WRITES and t['args'] and 'p' in t['args'][0]:
            a0 = t['args'][0]['p']
            root = F.struct_root(a0['l'])
            # `&mut v[k]` / `&mut s.f` temporaries: go to the local the reference was taken from
            ds = [d for d in F.defs.get(a0['l'], []) if d[0] in F.reach]
            if len(ds) == 1 and ds[0][1] == 'assign' and ds[0][2]['k'] == 'ref':
                root = F.struct_root(ds[0][2]['p']['l'])
            elif len(ds) == 1 and ds[0][1] == 'call' and ds[0][2]['args'] and 'p' in ds[0][2]['args'][0]:
                root = F.struct_root(ds[0][2]['args'][0]['p']['l'])
                ds2 = [d for d in F.defs.get(root, []) if d[0] in F.reach]
                if len(ds2) == 1 and ds2[0][1] == 'assign' and ds2[0][2]['k'] == 'ref':
                    root = F.struct_root(ds2[0][2]['p']['l'])
            writes[root].extend(t['args'][1:])
    while work:
        l = work.pop()
        if l in S:
            continue
        S.add(l)
        r = F.struct_root(l)
        if r != l:
            work.append(r)
        for d in F.defs.get(l, []):
            if d[0] not in F.reach:
                continue
            if d[1] == 'assign':
                for o in rv_operands(d[2]):
                    work.extend(_operand_locals(o))
            elif through_calls:
                for a in d[2]['args']:
                    work.extend(_operand_locals(a))
        for o in writes.get(l, []):
            work.extend(_operand_locals(o))
    return S


def forward_self_stores(f):
    """Copy of a method's MIR in which a load of `self.f` that executes after a store `self.f = v` in the same body reads
    `v` (store-to-load forwarding for scalar fields of self): terms built on the copy distinguish the cursor before and
    after `self.i += 1`."""
    import copy
    g = copy.deepcopy({k: v for k, v in f.items() if k not in ('_mentions',)})
    locs = g['locals']
    blocks = g['blocks']
    stores = []   # (bi, si, field name, temp local)
    for bi, b in enumerate(blocks):
        new_s = []
        for s_ in b['s']:
            pr = s_['lhs']['proj']
            if s_['lhs']['l'] == 1 and len(pr) == 2 and pr[0] == '*' and isinstance(pr[1], dict) and 'f' in pr[1] \
                    and pr[1].get('ty', '') in ('usize', 'u64', 'u32', 'isize', 'i64'):
                n = len(locs)
                locs.append(pr[1].get('ty', 'usize'))
                new_s.append({'lhs': {'l': n, 'proj': []}, 'rv': s_['rv'], 'line': s_.get('line', ''), 'macros': s_.get('macros', [])})
                s2 = dict(s_)
                s2['rv'] = {'k': 'use', 'a': {'p': {'l': n, 'proj': []}}}
                new_s.append(s2)
                stores.append((bi, len(new_s) - 1, pr[1]['f'], n))
            else:
                new_s.append(s_)
        b['s'] = new_s
    g['_stores'] = stores
    return g


def apply_forwarding(facts, f):
    """-> (Fn over the forwarded copy, list of (field, temp local))"""
    g = forward_self_stores(f)
    F = Fn(facts, g)
    dom = F.dom()
    for bi, si, fld, n in g['_stores']:
        for bj, b in enumerate(g['blocks']):
            if bj not in F.reach:
                continue
            if not (bj == bi or (bi in dom[bj] and bj != bi)):
                continue
            # a later store to the same field ends the forwarding range; keep it simple: only forward when this is the only store
            if sum(1 for x in g['_stores'] if x[2] == fld) != 1:
                continue
            for sj, s_ in enumerate(b['s']):
                if bj == bi and sj <= si:
                    continue
                rv = s_['rv']
                if rv['k'] == 'use' and 'p' in rv['a']:
                    pl = rv['a']['p']
                    if pl['l'] == 1 and len(pl['proj']) == 2 and pl['proj'][0] == '*' and isinstance(pl['proj'][1], dict) and pl['proj'][1].get('f') == fld:
                        s_['rv'] = {'k': 'use', 'a': {'p': {'l': n, 'proj': []}}}
    # loops: a block that dominates the store may also run after it; forwarding is only applied forward of the store in
    # dominance order, which is exact for the loop-free bodies of next()/next_back()
    F2 = Fn(facts, g)
    return F2, [(fld, n) for _, _, fld, n in g['_stores']]
