"""R-SER (every field serialized / deserialized / compared / cloned), R-AUTO (shareable: no interior
mutability, raw pointers, hand-written Send/Sync), R-BOX (retained payload has no slack)."""
from .core import *
from .report import Inst

ROOTS = [
    'bitvector::BitVector', 'bitvector::BitVectorMut', 'qvector::QVector', 'qvector::rs_qvector::RSQVector',
    'bitvector::rs_narrow::RSNarrow', 'bitvector::rs_wide::RSWide', 'darray::DArray',
    'quadwt::QWaveletTree', 'quadwt::huffqwt::HuffQWaveletTree', 'binwt::WaveletTree',
    # instantiation of the generic parameter S of RSQVector (RSQVector256 / RSQVector512)
    'qvector::rs_qvector::rs_support_plain::RSSupportPlain',
]


def closure_adts(FA):
    """ADTs reachable by field containment from the public query structures."""
    seen = []
    st = list(ROOTS)
    while st:
        p = st.pop()
        if p in seen or p not in FA.adts:
            continue
        seen.append(p)
        for fld in FA.adts[p]['fields']:
            for tg in fld['tags']:
                if tg.startswith('adt:'):
                    q = tg[4:]
                    if q in FA.adts and q not in seen:
                        st.append(q)
    return sorted(seen)


def impls_of(FA, base):
    out = {}
    for i in FA.impls:
        if i['self_adt'] == base and i['trait']:
            out.setdefault(i['trait'].split('::')[-1], []).append(i)
    return out


def _method(FA, base, trait_last, name):
    for f in FA.fns.values():
        if f['name'] == name and f.get('_base') == base and f['impl_trait'].split('::')[-1] == trait_last:
            return f
    return None


def _visitor_fns(FA, base, name):
    out = []
    for p, f in FA.fns.items():
        if f['name'] == name and '__Visitor' in f['impl_self'] and 'Deserialize' in f['impl_self']:
            m = re.search(r"Deserialize<'de> for (.+)>::deserialize::__Visitor", f['impl_self'])
            if m and base_type(m.group(1)) == base:
                out.append(f)
    return out


def _self_fields_used(f, arg_locals=(1,)):
    """Names of fields projected from the given argument locals (directly or through copies of refs)."""
    used = set()
    # locals that alias an argument (ref copies)
    alias = {l: l for l in arg_locals}
    changed = True
    while changed:
        changed = False
        for b in f['blocks']:
            for s in b['s']:
                rv = s.get('rv')
                if rv and 'lhs' in s and not s['lhs']['proj']:
                    src = None
                    if rv['k'] == 'use' and 'p' in rv['a'] and not [e for e in rv['a']['p']['proj'] if e != '*']:
                        src = rv['a']['p']['l']
                    if rv['k'] == 'ref' and not [e for e in rv['p']['proj'] if e != '*']:
                        src = rv['p']['l']
                    if src in alias and s['lhs']['l'] not in alias:
                        alias[s['lhs']['l']] = alias[src]
                        changed = True

    def scan_place(p):
        if p['l'] in alias:
            for e in p['proj']:
                if isinstance(e, dict) and 'f' in e:
                    used.add(e['f'])
                    break

    def scan_op(o):
        if o and 'p' in o:
            scan_place(o['p'])
    for b in f['blocks']:
        for s in b['s']:
            rv = s.get('rv')
            if not rv:
                continue
            for k in ('a', 'b'):
                if k in rv and isinstance(rv[k], dict):
                    scan_op(rv[k])
            for o in rv.get('ops', []):
                scan_op(o)
            if 'p' in rv:
                scan_place(rv['p'])
        t = b['t']
        if t['k'] == 'call':
            for a in t['args']:
                scan_op(a)
        if t['k'] == 'switch':
            scan_op(t['d'])
    return used


def rule_SER(FA):
    out = []
    props0 = ['C11', 'C19', 'C04', 'C09', 'C10']   # a value obtained by deserializing is a state the safe API (C04), the prefetch paths (C09) and the twins (C10) must handle
    from .r_arith import props_of_module
    for base in closure_adts(FA):
        adt = FA.adts[base]
        # ... and it must answer every query of its structure's own property like the value it was written from
        props = props0 + [x for x in props_of_module(base, default=()) if x not in props0]
        fields = [x['name'] for x in adt['fields']]
        imp = impls_of(FA, base)
        short = base.split('::')[-1]
        for tr in ('Serialize', 'Deserialize', 'PartialEq', 'Clone'):
            key = 'R-SER|%s|impl %s' % (base, tr)
            if tr in imp:
                out.append(Inst('R-SER', key, 'ok', imp[tr][0]['span'], 'impl present (%s)' % ('derived' if imp[tr][0]['derived'] else 'hand-written'), props, nontrivial=False))
            else:
                out.append(Inst('R-SER', key, 'violation', adt['span'], '%s does not implement %s' % (short, tr), props))
        # serialize covers every field
        ser = _method(FA, base, 'Serialize', 'serialize')
        if ser is not None:
            names = set()
            for b in ser['blocks']:
                t = b['t']
                if t['k'] == 'call' and 'fn' in t['f'] and t['f']['fn']['name'] in ('serialize_field', 'serialize_element', 'serialize_entry'):
                    for a in t['args']:
                        if 'c' in a and a['c'].startswith('"'):
                            names.add(a['c'].strip('"'))
            stys = [t['f']['fn']['gargs'][-1] for b in ser['blocks'] for t in [b['t']]
                    if t['k'] == 'call' and 'fn' in t['f'] and t['f']['fn']['name'] == 'serialize_field' and t['f']['fn'].get('gargs')]
            wrappers = [x for x in stys if '__SerializeWith' in x]
            extra = sorted(names - set(fields))
            # a renamed field (`#[serde(rename = ..)]`) changes a name bincode never writes; an ADDITIONAL entry is what matters
            if ser['derived'] and extra and len(names) > len([x for x in fields if x in names]) + len([x for x in fields if x not in names]):
                out.append(Inst('R-SER', 'R-SER|%s|writer adds nothing' % base, 'violation', ser['span'],
                                'the derived Serialize of %s writes `%s`, which is not a field (serde(tag = ..)): the derived Deserialize does not read it back, every later field is misparsed' % (short, ', '.join(extra)), props))
            if wrappers:
                out.append(Inst('R-SER', 'R-SER|%s|serialize uses field types' % base, 'violation', ser['span'],
                                'a field of %s is serialized through a wrapper type (%s): hand-written field serializer outside the trusted derive' % (short, wrappers[0].split('::')[-1]), props))
            # every serialize_field is unconditional: besides the `?` of each call (enum discriminant switches) and
            # drop flags (booleans assigned from constants) a derived serialize has no branch
            SF = FA.fn(ser)
            cond = []
            for bi, b in enumerate(SF.blocks):
                t = b['t']
                if t['k'] != 'switch' or 'p' not in t['d'] or t['d']['p']['proj']:
                    continue
                ds = SF.defs.get(t['d']['p']['l'], [])
                kinds = set()
                for d in ds:
                    if d[1] == 'call':
                        kinds.add('call:' + d[2]['f'].get('fn', {}).get('name', '?'))
                    elif d[2]['k'] == 'discr':
                        kinds.add('discr')
                    elif d[2]['k'] == 'use' and 'c' in d[2]['a']:
                        kinds.add('const')
                    else:
                        kinds.add(d[2]['k'])
                if kinds - {'discr', 'const'}:
                    cond.append(', '.join(sorted(kinds - {'discr', 'const'})))
            if cond:
                out.append(Inst('R-SER', 'R-SER|%s|serialize is unconditional' % base, 'violation', ser['span'],
                                'serialization of %s branches on a computed condition (%s): a field is written only sometimes (skip_serializing_if), which a positional format cannot read back' % (short, cond[0]), props))
            # a positional format (bincode) writes a struct as its fields in order: a derive that goes through a map of unknown
            # length (`#[serde(flatten)]`) cannot be written at all (bincode: SequenceMustHaveLength)
            if ser['derived'] and any(t['f']['fn']['name'] in ('serialize_map', 'collect_map') for bi, t in SF.calls()):
                out.append(Inst('R-SER', 'R-SER|%s|positional form' % base, 'violation', ser['span'],
                                'the derived Serialize of %s writes a map of unknown length (serde(flatten)): bincode rejects it, the value cannot be serialized' % short, props))
            used = _self_fields_used(ser)
            missing = [x for x in fields if x not in names and x not in used]
            # a field counts as written when its NAME is passed to serialize_field or the field itself is read by the
            # serializer (`#[serde(rename = ..)]` changes the name only, and bincode does not write names)
            skipped = [x for x in fields if x not in names and x not in used] if names else []
            key = 'R-SER|%s|serialize covers fields' % base
            if (names and skipped) or (not names and missing):
                bad = skipped or missing
                out.append(Inst('R-SER', key, 'violation', ser['span'], 'field(s) %s of %s are not serialized' % (', '.join(bad), short), props,
                                sample={'serialized': sorted(names), 'fields': fields}))
            else:
                out.append(Inst('R-SER', key, 'ok', ser['span'], 'serialize_field called for %s' % ', '.join(fields), props,
                                sample={'serialized': sorted(names), 'fields': fields}))
        # deserialize: visit_seq reads one element per field
        vs = _visitor_fns(FA, base, 'visit_seq')
        if vs:
            n = sum(1 for b in vs[0]['blocks'] for t in [b['t']] if t['k'] == 'call' and 'fn' in t['f'] and t['f']['fn']['name'] == 'next_element')
            key = 'R-SER|%s|visit_seq reads every field' % base
            nonphantom = [x for x in adt['fields'] if not (x['tags'] and x['tags'][0] == 'adt:std::marker::PhantomData')]
            # element types requested from the sequence: the field types themselves, in order (a `deserialize_with`,
            # `with`, `default` or `skip` attribute shows up as a wrapper type or a missing read)
            etys = [t['f']['fn']['gargs'][-1] for b in vs[0]['blocks'] for t in [b['t']]
                    if t['k'] == 'call' and 'fn' in t['f'] and t['f']['fn']['name'] == 'next_element' and t['f']['fn'].get('gargs')]
            ftys = [x['ty'] for x in adt['fields']]
            n_inv = sum(1 for b in vs[0]['blocks'] for t in [b['t']] if t['k'] == 'call' and 'fn' in t['f'] and t['f']['fn']['name'] == 'invalid_length')
            n_def = sum(1 for b in vs[0]['blocks'] for t in [b['t']] if t['k'] == 'call' and 'fn' in t['f'] and t['f']['fn']['name'] == 'default'
                        and 'PhantomData' not in t['f']['fn'].get('full', ''))
            if n_inv < n - (len(fields) - len(nonphantom)) or n_def:
                out.append(Inst('R-SER', 'R-SER|%s|missing element is an error' % base, 'violation', vs[0]['span'],
                                'deserializer substitutes a default for a missing element of %s (serde(default)): %d invalid_length arms for %d reads' % (short, n_inv, n), props))
            odd = [e for e in etys if '__DeserializeWith' in e]
            if (n == len(fields) or n == len(nonphantom)) and odd:
                out.append(Inst('R-SER', key, 'violation', vs[0]['span'],
                                'deserializer reads %s through a wrapper type (%s): a hand-written field deserializer is outside the trusted derive, so "deserialization accepts what serialization wrote" is not discharged' % (
                                    short, ', '.join(x.split('::')[-1] for x in odd[:3])), props, sample={'element_types': etys, 'field_types': ftys}))
            elif n == len(fields) or n == len(nonphantom):
                out.append(Inst('R-SER', key, 'ok', vs[0]['span'], '%d next_element calls for %d fields' % (n, len(fields)), props))
            else:
                out.append(Inst('R-SER', key, 'violation', vs[0]['span'], 'deserializer reads %d elements but %s has %d fields (a field is skipped or defaulted)' % (n, short, len(fields)), props))
        elif 'Deserialize' in imp:
            de = _method(FA, base, 'Deserialize', 'deserialize')
            ser2 = _method(FA, base, 'Serialize', 'serialize')
            fieldwise = ser2 is not None and any(t['f']['fn']['name'] == 'serialize_field' for b in ser2['blocks'] for t in [b['t']] if t['k'] == 'call' and 'fn' in t['f'])
            if de is not None and de['derived'] and ser2 is not None and ser2['derived'] and fieldwise and fields:
                # derived on both sides, the writer goes field by field, the reader has no visitor at all: the reader was
                # redirected to another type (`#[serde(from = "..")]` without the matching `into`)
                out.append(Inst('R-SER', 'R-SER|%s|reader mirrors writer' % base, 'violation', de['span'],
                                'the derived Serialize of %s writes its %d fields but the derived Deserialize reads another type and converts (serde(from / try_from) without the matching `into`): the bytes written are not the bytes read, so a %s inside a sequence or a tuple desynchronises the stream' % (short, len(fields), short), props))
            else:
                out.append(Inst('R-SER', 'R-SER|%s|visit_seq reads every field' % base, 'note', de['span'] if de else '',
                                'hand-written Deserialize: field coverage not decided', props, nontrivial=False))
        # eq compares every field
        eq = _method(FA, base, 'PartialEq', 'eq')
        if eq is not None:
            u1 = _self_fields_used(eq, (1,))
            u2 = _self_fields_used(eq, (2,))
            miss = [x for x in fields if not (x in u1 and x in u2)
                    and not (FA.adts[base]['fields'][fields.index(x)]['tags'][:1] == ['adt:std::marker::PhantomData'])]
            key = 'R-SER|%s|eq compares fields' % base
            floor_prefix = None
            if not eq['derived']:
                # a hand-written `==` that compares only a prefix of a field whose length is the FLOOR of bits / word size
                # leaves the last, partially used word out
                EQ = FA.fn(FA.inlined(eq))
                for bi, t in EQ.calls():
                    if t['f']['fn']['name'] in ('index', 'get', 'get_unchecked') and len(t['args']) == 2:
                        r = norm(EQ.operand_term(t['args'][1]))
                        if isinstance(r, tuple) and r[:1] == ('agg',) and ('RangeTo' in r[1] or 'ops::Range:' in r[1]) and r[2]:
                            end = strip_casts(r[2][-1])
                            if end[:2] == ('bin', 'Shr') and end[3][:1] == ('const',) and any(isinstance(x, tuple) and x[:1] == ('field',) for x in subterms(end[2])) \
                                    and end[2][:1] != ('bin',):
                                floor_prefix = (t.get('line', ''), show(end)[:50])
            if floor_prefix and not miss:
                out.append(Inst('R-SER', key, 'violation', floor_prefix[0],
                                '`==` on %s compares only the first `%s` words of a field: the floor of the length drops the last, partially used word, so values that differ there compare equal' % (short, floor_prefix[1]), props))
            elif miss:
                out.append(Inst('R-SER', key, 'violation', eq['span'], '`==` on %s ignores field(s) %s' % (short, ', '.join(miss)), props,
                                sample={'compared': sorted(u1 & u2), 'fields': fields}))
            else:
                out.append(Inst('R-SER', key, 'ok', eq['span'], 'both operands project %s' % ', '.join(fields), props))
        # clone copies every field
        cl = _method(FA, base, 'Clone', 'clone')
        if cl is not None:
            u = _self_fields_used(cl, (1,))
            miss = [x for x in fields if x not in u]
            whole = any(s.get('rv', {}).get('k') == 'use' and s['lhs']['l'] == 0 for b in cl['blocks'] for s in b['s'] if 'lhs' in s)
            key = 'R-SER|%s|clone copies fields' % base
            if miss and not whole:
                out.append(Inst('R-SER', key, 'violation', cl['span'], 'clone() of %s does not copy field(s) %s' % (short, ', '.join(miss)), props))
            else:
                out.append(Inst('R-SER', key, 'ok', cl['span'], 'every field cloned', props))
        # field types
        for fld in adt['fields']:
            key = 'R-SER|%s.%s|type' % (base, fld['name'])
            bad = [t for t in fld['tags'] if t == 'float' or t in ('rawptr', 'fnptr', 'dyn', 'ref', 'refmut', 'str') or t.startswith('other:')]
            big = [t for t in fld['tags'] if t.startswith('array:') and t[6:].isdigit() and int(t[6:]) > 32]
            if bad or big:
                out.append(Inst('R-SER', key, 'violation', adt['span'], 'field type %s is outside the set serde+bincode round-trip exactly / compare reflexively (%s)' % (
                    fld['ty'], ', '.join(bad + big)), props))
            else:
                out.append(Inst('R-SER', key, 'ok', adt['span'], fld['ty'], props, nontrivial=False))
    return out


def rule_AUTO(FA):
    out = []
    props = ['C18', 'C11']
    for base in closure_adts(FA):
        adt = FA.adts[base]
        for fld in adt['fields']:
            key = 'R-AUTO|%s.%s' % (base, fld['name'])
            bad = [t for t in fld['tags'] if t in ('rawptr', 'unsafecell', 'ref', 'refmut', 'fnptr', 'dyn')
                   or t in ('adt:std::rc::Rc', 'adt:std::rc::Weak') or t.startswith('adt:std::cell::') or t.startswith('adt:std::sync::atomic')
                   or t.startswith('adt:std::sync::Mutex') or t.startswith('adt:std::sync::RwLock') or t.startswith('adt:std::sync::Once')]
            if bad:
                out.append(Inst('R-AUTO', key, 'violation', adt['span'],
                                'field `%s: %s` introduces %s: the structure is no longer plainly owned immutable data (Send/Sync/purity of queries)' % (
                                    fld['name'], fld['ty'], ', '.join(sorted(set(bad)))), props))
            else:
                out.append(Inst('R-AUTO', key, 'ok', adt['span'], fld['ty'], props))
        for i in FA.impls:
            if i['self_adt'] == base and i['trait'].split('::')[-1] in ('Send', 'Sync'):
                out.append(Inst('R-AUTO', 'R-AUTO|%s|impl %s' % (base, i['trait'].split('::')[-1]), 'violation', i['span'],
                                'hand-written %s%s impl of %s for %s: auto-trait reasoning no longer applies' % (
                                    'negative ' if i['negative'] else '', 'unsafe ' if i['unsafe'] else '', i['trait'], base), props))
        lay = FA.layouts.get(base)
        if lay is not None and adt['generics'] == [] and not lay['freeze']:
            out.append(Inst('R-AUTO', 'R-AUTO|%s|freeze' % base, 'violation', adt['span'], 'type is not Freeze (interior mutability)', props))
    # the iterator types the query structures hand out travel between threads with them: plain references are fine there
    # (a borrowing iterator is Send/Sync when the container is), raw pointers / cells / Rc are not
    inner = set(closure_adts(FA))
    for base, adt in sorted(FA.adts.items()):
        if base in inner or not adt.get('exported') or '::_::' in base or 'perf_and_test' in base:
            continue
        for fld in adt['fields']:
            bad = [t for t in fld['tags'] if t in ('rawptr', 'unsafecell', 'fnptr', 'dyn')
                   or t in ('adt:std::rc::Rc', 'adt:std::rc::Weak') or t.startswith('adt:std::cell::') or t.startswith('adt:std::sync::atomic')
                   or t.startswith('adt:std::sync::Mutex') or t.startswith('adt:std::sync::RwLock') or t.startswith('adt:std::sync::Once')]
            key = 'R-AUTO|%s.%s' % (base, fld['name'])
            if bad:
                out.append(Inst('R-AUTO', key, 'violation', adt['span'],
                                'field `%s: %s` of the public type %s introduces %s: values of the type (iterators over the query structures) are no longer Send / Sync with their container' % (
                                    fld['name'], fld['ty'], base.split('::')[-1], ', '.join(sorted(set(bad)))), props))
            else:
                out.append(Inst('R-AUTO', key, 'ok', adt['span'], fld['ty'], props, nontrivial=False))
    if FA.statics:
        for s in FA.statics:
            st = 'violation' if s['mut'] else 'note'
            out.append(Inst('R-AUTO', 'R-AUTO|static %s' % s['path'], st, '', 'static item%s in the crate' % (' (mutable)' if s['mut'] else ''), props))
    return out


# ---------------------------------------------------------------- R-BOX

PAYLOAD_BASES = ['quadwt::QWaveletTree', 'binwt::WaveletTree', 'qvector::QVector', 'qvector::rs_qvector::RSQVector',
                 'qvector::rs_qvector::rs_support_plain::RSSupportPlain', 'bitvector::rs_wide::RSWide', 'bitvector::rs_narrow::RSNarrow',
                 'bitvector::BitVector', 'quadwt::prefetch_support::PrefetchSupport', 'darray::DArray', 'darray::Inventories']
# Vec fields whose length is O(levels) or O(sigma), not O(n): slack is covered by the per-level / sigma term
SMALL_VECS = {('quadwt::QWaveletTree', 'prefetch_support'), ('binwt::WaveletTree', 'lens'), ('binwt::WaveletTree', 'codes_encode'),
              ('binwt::WaveletTree', 'codes_decode'), ('quadwt::prefetch_support::PrefetchSupport', 'samples')}


def rule_BOX(FA):
    """O(n) payload is kept in Box<[T]> (exact size by construction), or in a Vec that the constructor
    shrinks (`shrink_to_fit`) / builds by collect() / into_boxed_slice."""
    out = []
    props = ['C14']
    for base in PAYLOAD_BASES:
        adt = FA.adts.get(base)
        if adt is None:
            out.append(Inst('R-BOX', 'R-BOX|%s' % base, 'violation', '', 'type not found (anchor lost)', props))
            continue
        for fld in adt['fields']:
            tags = fld['tags']
            key = 'R-BOX|%s.%s' % (base, fld['name'])
            if 'adt:std::vec::Vec' not in tags:
                if 'adt:std::boxed::Box' in tags:
                    out.append(Inst('R-BOX', key, 'ok', adt['span'], 'Box<[T]>: no spare capacity by construction', props))
                continue
            if (base, fld['name']) in SMALL_VECS:
                out.append(Inst('R-BOX', key, 'note', adt['span'], 'Vec of O(levels)/O(sigma) entries: covered by the additive term', props, nontrivial=False))
                continue
            # a Vec payload field: some constructor of the type must shrink it before storing
            shr = False
            for f in FA.lib_fns(include_closures=False):
                if f.get('_base') != base or f['name'] not in ('new', 'from', 'from_iter', 'build'):
                    continue
                # private construction phases are inlined; the shrink must act on a vector the field's value is built from
                G = FA.inlined(f)
                F = FA.fn(G)
                F.dom()
                fidx = [i for i, x in enumerate(adt['fields']) if x['name'] == fld['name']][0]
                starts = []
                for bi, b in enumerate(F.blocks):
                    if bi not in F.reach:
                        continue
                    for st in b['s']:
                        rv = st['rv']
                        if rv['k'] == 'agg' and rv['kind'].get('adt') == base and fidx < len(rv['ops']) and 'p' in rv['ops'][fidx]:
                            starts.append(rv['ops'][fidx]['p']['l'])
                S = backward_slice(F, starts) if starts else None
                for bi, b in enumerate(F.blocks):
                    if bi not in F.reach:
                        continue
                    t = b['t']
                    if t['k'] == 'call' and 'fn' in t['f'] and t['f']['fn']['name'] in ('shrink_to_fit', 'into_boxed_slice', 'shrink_to'):
                        a0 = t['args'][0] if t['args'] else None
                        if S is None or (a0 and 'p' in a0 and (a0['p']['l'] in S or F.struct_root(a0['p']['l']) in S)) or t['dest']['l'] in S:
                            shr = True
            if shr:
                out.append(Inst('R-BOX', key, 'ok', adt['span'], 'Vec payload: constructor calls shrink_to_fit / into_boxed_slice', props))
            else:
                out.append(Inst('R-BOX', key, 'violation', adt['span'],
                                'payload field `%s: %s` is a Vec and no constructor of %s shrinks it: unused capacity may be retained' % (fld['name'], fld['ty'], base.split('::')[-1]), props))
    return out
