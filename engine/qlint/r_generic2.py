"""More generic contradiction rules (sixth wave).  Each reports only a positive contradiction between two places of the code
(or between a place and a fixed fact of the language); anything it cannot read is a note or nothing.
R-GIDX  a bounds-checked index is dominated by a test of the same index against the same container's length that still
        admits index == len (`if k <= v.len() { v[k] }`)
R-DNAME a trait method implemented as a bare call of an inherent method of the same type calls the inherent method of the
        SAME name when one exists (`fn n_zeros(&self) { self.n_ones() }`)
R-SIGN  sibling types (BitVector / BitVectorMut, RSNarrow / RSWide) expose same-named methods with the same return type
R-EMPT  `is_empty()` is `len() == 0`: both are computed from the same field with the same granularity
R-USE   a construction path uses its input (a by-value parameter that is only dropped is an input that is ignored)
R-FLT   an integer result is not computed through floating point (f64 has 53 bits of mantissa)
R-STAB  a function whose name promises stability does not call an unstable sort
"""
import re
import collections

from .core import *
from .report import Inst
from .r_arith import props_of_module, INT_W

SELF = ('param', 'self')


def _is_len_of(t):
    """container term X if t is len(X) (through casts), else None"""
    t = strip_casts(t)
    if isinstance(t, tuple) and t[:1] == ('call',) and t[1].split('::')[-1] == 'len' and t[2]:
        return strip_ref(t[2][0])
    if isinstance(t, tuple) and t[:2] == ('un', 'PtrMetadata') and len(t) > 2:
        return strip_ref(t[2])     # the length of a slice as MIR reads it
    if isinstance(t, tuple) and t[:1] == ('len',) and len(t) > 1:
        return strip_ref(t[1])
    return None


def rule_GIDX(FA):
    out = []
    n = 0
    for f in FA.lib_fns():
        pf = FA.closure_parent(f)
        for spec in FA.specs(f):
            F = FA.fn(f, spec)
            F.dom()
            for bi, b in enumerate(F.blocks):
                if bi not in F.reach:
                    continue
                t = b['t']
                site = None
                if t['k'] == 'assert' and 'bounds' in t.get('msg', {}):
                    idx = strip_casts(norm(F.operand_term(t['msg']['index'])))
                    ln = strip_casts(norm(F.operand_term(t['msg']['len'])))
                    site = (idx, ln, t.get('line', ''))
                elif t['k'] == 'call' and 'fn' in t['f'] and t['f']['fn']['name'] in ('index', 'index_mut') and len(t['args']) == 2 and not t['f']['fn'].get('local'):
                    idx = strip_casts(norm(F.operand_term(t['args'][1])))
                    cont = strip_ref(norm(F.operand_term(t['args'][0])))
                    site = (idx, ('call', 'len', (cont,)), t.get('line', ''))
                if site is None or site[0][:1] == ('const',):
                    continue
                idx, ln, line = site
                cont = _is_len_of(ln)
                atoms = path_atoms(F, bi)
                lax = strict = False
                for a in atoms:
                    if a[0] not in ('<', '<='):
                        continue
                    l_, r_ = strip_casts(a[1]), strip_casts(a[2]) if isinstance(a[2], tuple) else a[2]
                    if l_ != idx:
                        continue
                    same_len = (r_ == ln) or (cont is not None and _is_len_of(r_) is not None and norm(_is_len_of(r_)) == norm(cont))
                    if not same_len:
                        continue
                    if a[0] == '<':
                        strict = True
                    else:
                        lax = True
                if not lax and not strict:
                    continue
                n += 1
                key = 'R-GIDX|%s|%s' % (fn_key(pf), show(idx)[:30])
                props = sorted(set(props_of_module(fn_key(pf))) | {'C04'})
                if lax and not strict:
                    out.append(Inst('R-GIDX', key, 'violation', line,
                                    'the indexing with `%s` is guarded by `%s <= %s`: the guard admits index == length, which is out of bounds (panic instead of the guarded alternative)' % (
                                        show(idx)[:40], show(idx)[:40], show(ln)[:50]), props))
                else:
                    out.append(Inst('R-GIDX', key, 'ok', line, 'index `%s` under `< %s`' % (show(idx)[:40], show(ln)[:50]), props))
    if not out:
        out.append(Inst('R-GIDX', 'R-GIDX|none', 'note', '', 'no index guarded by a comparison with its container length', ['C04'], nontrivial=False))
    return out


def rule_DNAME(FA):
    out = []
    for f in FA.lib_fns(include_closures=False):
        if not f['impl_trait'] or f['derived'] or f['argc'] < 1 or not f.get('_base') or f['_base'] not in FA.adts:
            continue
        F = FA.fn(f)
        F.dom()
        # a bare delegation: the body is ONE call, of a crate function, with the parameters passed through in order
        calls = [(bi, t) for bi, t in F.calls() if bi in F.reach]
        if len(calls) != 1 or len(F.reach) > 4:
            continue
        t = calls[0][1]
        fn = t['f']['fn']
        if not (fn.get('local') or fn.get('crate') == 'qwt') or fn.get('trait') or len(t['args']) != f['argc']:
            continue
        from .r_misc import _origin_id
        if any('p' not in a or _origin_id(F, a['p']['l'])[0] != k + 1 for k, a in enumerate(t['args'])):
            continue
        cal = fn['name']
        same = [g for g in FA.by_base_name.get((f['_base'], f['name']), []) if not g['impl_trait'] and g['argc'] == f['argc']]
        other = [g for g in FA.by_base_name.get((f['_base'], cal), []) if not g['impl_trait']]
        if not same:
            continue
        key = 'R-DNAME|%s' % fn_key(f)
        props = props_of_module(fn_key(f))
        if cal != f['name'] and other and same[0]['locals'][0] == f['locals'][0]:
            out.append(Inst('R-DNAME', key, 'violation', f['span'],
                            '`%s::%s` of %s returns `self.%s(..)` although the type has an inherent `%s` of the same signature: the trait method answers another question than the method it is named after' % (
                                f['impl_trait'].split('::')[-1], f['name'], f['_base'].split('::')[-1], cal, f['name']), props))
        elif cal == f['name']:
            out.append(Inst('R-DNAME', key, 'ok', f['span'], 'delegates to the inherent method of the same name', props))
    if not out:
        out.append(Inst('R-DNAME', 'R-DNAME|none', 'note', '', 'no trait method is a bare delegation to an inherent one', ['C06'], nontrivial=False))
    return out


SIGN_GROUPS = [(('bitvector::BitVector', 'bitvector::BitVectorMut'), ['C08']),
               (('bitvector::rs_narrow::RSNarrow', 'bitvector::rs_wide::RSWide'), ['C06'])]


def rule_SIGN(FA):
    out = []
    for group, props in SIGN_GROUPS:
        per = {}
        for base in group:
            for (b, name), fs in FA.by_base_name.items():
                if b != base:
                    continue
                for g in fs:
                    if g['derived'] or g['kind'] == 'Closure' or not (g['exported'] or g['pub']) or g['impl_trait']:
                        continue
                    per.setdefault(name, {})[base] = g
        for name, m in sorted(per.items()):
            if len(m) < 2:
                continue
            rets = {b: re.sub(r"'\w+", "'_", g['locals'][0]) for b, g in m.items()}
            rets = {b: re.sub(r'\b%s\b' % re.escape(b), 'Self', r) for b, r in rets.items()}
            args = {b: tuple(g['locals'][2:g['argc'] + 1]) for b, g in m.items()}
            key = 'R-SIGN|%s|%s' % ('/'.join(b.split('::')[-1] for b in group), name)
            vals = sorted(set(rets.values()))
            # only a difference in a CONST argument of one and the same type constructor is a contradiction (`Iter<true>` for
            # `Iter<false>`); siblings may legitimately return different types
            shapes = {re.sub(r'\b(true|false|\d+)\b', '#', v) for v in vals}
            if len(vals) > 1 and len(shapes) == 1 and len(set(args.values())) == 1:
                g = list(m.values())[-1]
                out.append(Inst('R-SIGN', key, 'violation', g['span'],
                                'the sibling types expose `%s` with the same parameters but different return types: %s' % (name, ' vs '.join('%s: %s' % (b.split('::')[-1], r[:70]) for b, r in sorted(rets.items()))), props))
            elif len(vals) == 1 and re.search(r'\b(true|false)\b', vals[0]):
                out.append(Inst('R-SIGN', key, 'ok', list(m.values())[0]['span'], 'same return type `%s`' % vals[0][:60], props, nontrivial=False))
    return out


def rule_EMPT(FA):
    out = []
    for (base, name), fs in sorted(FA.by_base_name.items()):
        if name != 'is_empty' or base not in FA.adts:
            continue
        e = next((g for g in fs if not g['derived'] and g['argc'] == 1), None)
        l = next((g for g in FA.by_base_name.get((base, 'len'), []) if not g['derived'] and g['argc'] == 1), None)
        if e is None or l is None:
            continue
        E = norm(summary(FA, e) or ('?',))
        L = norm(summary(FA, l) or ('?',))
        key = 'R-EMPT|%s' % base
        props = props_of_module(base)
        if has_unknown(E) or has_unknown(L) or E[:1] != ('cmp',) or E[1] != '==' or ('const', 0) not in (E[2], E[3]):
            out.append(Inst('R-EMPT', key, 'note', e['span'], 'is_empty() is `%s`, len() is `%s`: not compared' % (show(E)[:50], show(L)[:50]), props, nontrivial=False))
            continue
        x = E[3] if E[2] == ('const', 0) else E[2]

        def gran(t):
            """(root, right shift): t = root >> shift"""
            t = strip_casts(t)
            if t[:2] == ('bin', 'Shr') and t[3][:1] == ('const',):
                r, s = gran(t[2])
                return r, s + t[3][1]
            return t, 0
        if x == L or (x[:1] == ('call',) and x[1].split('::')[-1] == 'len' and x[2] and x[2][0] == SELF):
            out.append(Inst('R-EMPT', key, 'ok', e['span'], 'is_empty() is len() == 0', props))
            continue
        (rx, sx), (rl, sl) = gran(x), gran(L)
        if rx == rl and sx > sl:
            out.append(Inst('R-EMPT', key, 'violation', e['span'],
                            'is_empty() tests `%s == 0` but len() is `%s`: a value with 1 <= len() < %d reports is_empty() although it holds elements' % (show(x)[:40], show(L)[:40], 1 << (sx - sl)), props))
        elif rx == rl:
            out.append(Inst('R-EMPT', key, 'ok', e['span'], 'is_empty() and len() read `%s` (is_empty at least as fine as len)' % show(rx)[:40], props))
        else:
            out.append(Inst('R-EMPT', key, 'note', e['span'], 'is_empty() reads `%s`, len() reads `%s`: not compared' % (show(rx)[:40], show(rl)[:40]), props, nontrivial=False))
    return out


def rule_USE(FA):
    """from_iter / from / extend / new of the library types: every by-value input parameter is read somewhere (passed to a
    call, iterated, stored); a parameter whose only occurrence is its drop is an ignored input."""
    out = []
    for f in FA.lib_fns(include_closures=False):
        if f['derived'] or not f.get('_base') or f['_base'] not in FA.adts or f['name'] not in ('from_iter', 'from', 'extend', 'new', 'with_capacity', 'push', 'append_bits', 'set_bits', 'set'):
            continue
        if not (f['exported'] or f['pub'] or f['impl_trait']):
            continue
        F = FA.fn(f)
        F.dom()
        used = set()
        for bi, b in enumerate(F.blocks):
            if bi not in F.reach:
                continue
            for s_ in b['s']:
                for o in rv_operands(s_['rv']):
                    used.update(_operand_locals_(o))
            t = b['t']
            if t['k'] == 'call':
                for a in t['args']:
                    used.update(_operand_locals_(a))
            if t['k'] == 'switch':
                used.update(_operand_locals_(t['d']))
        for k in range(1, f['argc'] + 1):
            nm = f['names'].get(str(k), '')
            if not nm or nm.startswith('_') or nm == 'self':
                continue
            key = 'R-USE|%s|%s' % (fn_key(f), nm)
            props = sorted(set(props_of_module(fn_key(f))) | {'C19'})
            if k not in used:
                out.append(Inst('R-USE', key, 'violation', f['span'],
                                'the input `%s` of `%s` is never read: the value is built without it (the parameter is only dropped)' % (nm, f['name']), props))
            else:
                out.append(Inst('R-USE', key, 'ok', f['span'], '`%s` is read' % nm, props, nontrivial=False))
    return out


def _operand_locals_(o):
    out = []
    if o and 'p' in o:
        out.append(o['p']['l'])
        for e in o['p']['proj']:
            if isinstance(e, dict) and 'idx' in e:
                out.append(e['idx'])
    return out


FLOAT_T = ('f64', 'f32')


def rule_FLT(FA):
    out = []
    for f in FA.lib_fns():
        pf = FA.closure_parent(f)
        if not fn_key(pf).startswith('utils'):
            continue    # the word-level primitives (C17); elsewhere a float may legitimately size a search step
        F = FA.fn(f)
        F.dom()
        to_f = None
        back = None
        for bi, b in enumerate(F.blocks):
            if bi not in F.reach:
                continue
            for s_ in b['s']:
                rv = s_['rv']
                if rv['k'] == 'cast':
                    if rv['to'] in FLOAT_T and rv.get('from') in INT_W and INT_W[rv['from']] >= 64:
                        to_f = s_.get('line', '')
                    if rv.get('from') in FLOAT_T and rv['to'] in INT_W:
                        back = s_.get('line', '')
            t = b['t']
            if t['k'] == 'call' and 'fn' in t['f'] and t['f']['fn']['name'] in ('to_f64', 'to_f32'):
                to_f = t.get('line', '')
        if to_f and back:
            out.append(Inst('R-FLT', 'R-FLT|%s' % fn_key(pf), 'violation', back,
                            '`%s` converts an integer to floating point and the result back to an integer: f64 carries 53 significant bits, so 64- and 128-bit inputs are rounded (2^k - 1 becomes 2^k) and the integer result is off' % pf['name'],
                            props_of_module(fn_key(pf))))
    if not out:
        out.append(Inst('R-FLT', 'R-FLT|none', 'note', '', 'no integer result is computed through floating point', ['C17'], nontrivial=False))
    return out


def rule_STAB(FA):
    out = []
    for f in FA.lib_fns():
        pf = FA.closure_parent(f)
        if 'stable' not in pf['name']:
            continue
        F = FA.fn(f)
        bad = [t for bi, t in F.calls() if t['f']['fn']['name'].startswith('sort_unstable') or t['f']['fn']['name'] in ('select_nth_unstable', 'select_nth_unstable_by_key')]
        key = 'R-STAB|%s' % fn_key(pf)
        props = sorted(set(props_of_module(fn_key(pf))) | {'C01', 'C02', 'C03'})
        if bad:
            out.append(Inst('R-STAB', key, 'violation', bad[0].get('line', ''),
                            '`%s` calls `%s`: elements with equal keys may be reordered, but the levels of the wavelet trees are built from the order this function leaves' % (pf['name'], bad[0]['f']['fn']['name']), props))
        elif f is pf:
            out.append(Inst('R-STAB', key, 'ok', pf['span'], 'no unstable sort', props, nontrivial=False))
    return out


def rule_CTOR(FA):
    """A constructor's early return of the EMPTY value (length field 0) is taken only for an empty input: the guard in front
    of it is `len == 0` / `is_empty()`.  `len <= 1` (or `< 2`) also sends one-element inputs there: they are built as empty."""
    out = []
    for f in FA.lib_fns(include_closures=False):
        base = f.get('_base')
        if f['name'] not in ('new', 'from', 'from_iter') or base not in FA.adts or f['derived'] or f['argc'] < 1:
            continue
        adt = FA.adts[base]
        names = [x['name'] for x in adt['fields']]
        lenf = [n for n in names if n in ('n', 'n_bits', 'len', 'position', 'n_symbols')]
        if not lenf:
            continue
        owner = FA.canon_type(base) or base
        for spec in FA.specs(f):
            F = FA.fn(f, spec)
            F.dom()
            for bi, b in enumerate(F.blocks):
                if bi not in F.reach:
                    continue
                for s_ in b['s']:
                    rv = s_['rv']
                    if rv['k'] != 'agg' or rv['kind'].get('adt') != owner:
                        continue
                    k = names.index(lenf[0])
                    if k >= len(rv['ops']) or norm(F.operand_term(rv['ops'][k])) != ('const', 0):
                        continue
                    key = 'R-CTOR|%s%s|empty return' % (fn_key(f), spec_key(spec))
                    props = sorted(set(props_of_module(fn_key(f))) | {'C19'})
                    verdict = None
                    for a in path_atoms(F, bi):
                        if a[0] == 'true' and isinstance(a[1], tuple) and a[1][:1] == ('call',) and a[1][1].split('::')[-1] == 'is_empty':
                            verdict = verdict or ('ok', 'the empty value is returned under `%s`' % fmt_atom(a)[:50])
                        if a[0] not in ('<', '<=', '==') or not isinstance(a[2], tuple):
                            continue
                        l_, r_ = strip_casts(a[1]), strip_casts(a[2])
                        islen = lambda t: isinstance(t, tuple) and ((t[:1] == ('call',) and t[1].split('::')[-1] == 'len') or t[:2] == ('un', 'PtrMetadata'))
                        if islen(l_) and r_[:1] == ('const',) and isinstance(r_[1], int):
                            lim = r_[1] if a[0] in ('<=', '==') else r_[1] - 1     # largest admitted length
                            if a[0] == '==' and r_[1] == 0 or lim == 0:
                                verdict = verdict or ('ok', 'the empty value is returned under `%s`' % fmt_atom(a)[:50])
                            elif a[0] != '==' and lim >= 1:
                                verdict = ('violation', 'the EMPTY value (length 0) is returned under `%s`, which also holds for inputs of length 1..%d: they are built as the empty structure' % (fmt_atom(a)[:50], lim))
                        elif islen(r_) and l_ == ('const', 0) and a[0] == '==':
                            verdict = verdict or ('ok', 'the empty value is returned under `%s`' % fmt_atom(a)[:50])
                    if verdict:
                        out.append(Inst('R-CTOR', key, verdict[0], s_.get('line', ''), verdict[1], props))
    if not out:
        out.append(Inst('R-CTOR', 'R-CTOR|none', 'note', '', 'no constructor returns a constant-empty value under a length test', ['C01'], nontrivial=False))
    return out


def rule_OFFS(FA):
    """The prefetching walks of a quad wavelet tree follow the same path as the exact rank: the offset of a node's child
    range inside the next level comes from the same per-level accessor (`occs_smaller_unchecked`) in both.  A prefetch
    phase that asks another counter (`occs_unchecked`) computes positions of another node; they are then used as
    arguments of unchecked approximations (which unwrap)."""
    out = []
    for base in ('quadwt::QWaveletTree', 'quadwt::huffqwt::HuffQWaveletTree'):
        fs = [f for f in FA.lib_fns(include_closures=False) if f.get('_base') == base]
        exact = next((f for f in fs if f['name'] == 'rank_unchecked'), None)
        twins = [f for f in fs if f['name'].startswith('rank_prefetch') and f['name'].endswith('_unchecked')]
        if exact is None or not twins:
            continue

        def counters(f):
            names = set()
            for g in FA.with_closures(FA.inlined(f)):
                for b in g['blocks']:
                    t = b['t']
                    if t['k'] == 'call' and 'fn' in t['f'] and re.match(r'(n_)?occs', t['f']['fn']['name']):
                        names.add(t['f']['fn']['name'])
            return names
        ref = counters(exact)
        if not ref:
            continue
        props = ['C09'] + props_of_module(base)
        # the estimate accessors of the prefetch phases (rank up to a BLOCK start, sampled approximations) have no place in
        # the exact walk: `rank_block_unchecked` for `rank_unchecked` counts to the start of the block only
        def accessors(f, pat):
            names = set()
            for g in FA.with_closures(FA.inlined(f)):
                for b in g['blocks']:
                    t = b['t']
                    if t['k'] == 'call' and 'fn' in t['f'] and re.search(pat, t['f']['fn']['name']):
                        names.add(t['f']['fn']['name'])
            return names
        est = set()
        for tw in twins:
            est |= accessors(tw, r'^(rank_block|approx_rank)')
        used = accessors(exact, r'^(rank_block|approx_rank)') & est
        key = 'R-OFFS|%s|exact' % fn_key(exact)
        if used:
            out.append(Inst('R-OFFS', key, 'violation', exact['span'],
                            'the exact `rank_unchecked` calls `%s`, the accessor the prefetch phases use for their ESTIMATES (a count up to the start of the block / a sampled approximation): the result is no longer the number of occurrences' % ', '.join(sorted(used)),
                            props_of_module(base) + ['C04']))
        elif est:
            out.append(Inst('R-OFFS', key, 'ok', exact['span'], 'the exact walk uses none of the estimate accessors (%s)' % ', '.join(sorted(est)), props_of_module(base)))
        for tw in twins:
            got = counters(tw)
            key = 'R-OFFS|%s' % fn_key(tw)
            if got and not got <= ref:
                out.append(Inst('R-OFFS', key, 'violation', tw['span'],
                                '`%s` takes the offset of the child range from `%s`, the exact `rank_unchecked` from `%s`: the prefetch walk follows the ranges of another node' % (
                                    tw['name'], ', '.join(sorted(got - ref)), ', '.join(sorted(ref))), props))
            elif got:
                out.append(Inst('R-OFFS', key, 'ok', tw['span'], 'same per-level counter as rank_unchecked (%s)' % ', '.join(sorted(got)), props))
    if not out:
        out.append(Inst('R-OFFS', 'R-OFFS|none', 'note', '', 'no prefetch twin of rank_unchecked with a per-level counter found', ['C09'], nontrivial=False))
    return out


def rule_CODE(FA):
    """The fragments of a prefix code are taken relative to the code's OWN length: `code.content >> (code.len - ..)`.  A
    shift of a code's content by an amount that is computed from another length (the number of levels of the tree) reads
    the bits of codes shorter than that length from the wrong place."""
    out = []
    code_adts = [p for p, a in FA.adts.items() if {x['name'] for x in a.get('fields', [])} == {'content', 'len'}]
    by_base = {}
    if not code_adts:
        return [Inst('R-CODE', 'R-CODE|none', 'note', '', 'no {content, len} code record in the crate', ['C02'], nontrivial=False)]
    for f in FA.lib_fns():
        pf = FA.closure_parent(f)
        if pf.get('_base') not in ('quadwt::huffqwt::HuffQWaveletTree', 'binwt::WaveletTree'):
            continue
        for spec in FA.specs(f):
            F = FA.fn(f, spec)
            F.dom()
            n_ok = 0
            bad = None
            offsets = []
            for bi, b in enumerate(F.blocks):
                if bi not in F.reach:
                    continue
                for s_ in b['s']:
                    rv = s_.get('rv')
                    if not rv or rv['k'] != 'bin' or rv['op'].replace('Unchecked', '') != 'Shr':
                        continue
                    a = strip_casts(norm(F.operand_term(rv['a'])))
                    if a[:1] != ('field',) or a[2] != 'content':
                        continue
                    X = a[1]
                    amt = norm(F.operand_term(rv['b']))

                    def outside_loops(t):
                        # sub-terms that are not part of a loop variable (`level` of `for level in 0..code.len`)
                        if not isinstance(t, tuple) or not t:
                            return
                        if t[:1] == ('call',) and t[1].split('::')[-1] in ('next', 'next_back'):
                            return
                        yield t
                        for x in t:
                            if isinstance(x, tuple):
                                for y in outside_loops(x):
                                    yield y
                    subs = list(outside_loops(amt))
                    if any(st == ('field', X, 'len') for st in subs):
                        n_ok += 1
                        if any(isinstance(st, tuple) and st[:1] == ('call',) and st[1].split('::')[-1] in ('next', 'next_back') for st in subterms(amt)):
                            offsets.append((_const_part(amt), s_.get('line', '')))    # `len - <loop variable> + c`
                        continue
                    others = [st for st in subs if isinstance(st, tuple) and st[:1] == ('field',) and st[1] == SELF]
                    if others and bad is None:
                        bad = (s_.get('line', ''), show(amt)[:60], show(others[0]))
            key = 'R-CODE|%s%s' % (fn_key(pf), spec_key(spec))
            props = props_of_module(fn_key(pf))
            is_reader = pf['name'].startswith(('rank', 'select', 'get')) and (pf['exported'] or pf['pub'] or bool(pf['impl_trait']))
            for off in (offsets if is_reader else []):    # the readers; the builder (and its helpers) count the shift differently
                by_base.setdefault(pf.get('_base'), []).append((off, fn_key(pf), spec_key(spec)))
            if bad:
                out.append(Inst('R-CODE', key, 'violation', bad[0],
                                'the content of a code is shifted by `%s`, computed from `%s` and not from the length of that code: codes shorter than that are read at the wrong bit' % (bad[1], bad[2]), props))
            elif n_ok:
                out.append(Inst('R-CODE', key, 'ok', pf['span'], '%d fragment extraction(s) relative to the code\'s own length' % n_ok, props))
    # the same fragment is addressed the same way wherever a loop walks the levels of a code: `len - level - 1` in one loop
    # and `len - level` in another read neighbouring bits
    for base, lst in sorted(by_base.items(), key=lambda kv: str(kv[0])):
        cs = collections.Counter(o[0][0] for o in lst)
        if len(cs) > 1 and len(lst) >= 3:
            ref, n = cs.most_common(1)[0]
            if n >= len(lst) - 1:
                (c, line), fk, sk = next(o for o in lst if o[0][0] != ref)
                out.append(Inst('R-CODE', 'R-CODE|%s%s|offset' % (fk, sk), 'violation', line,
                                'this loop takes the fragment of level `l` at shift `len - l %+d`, the other %d loops over the levels of %s at `len - l %+d`: it reads the neighbouring bit' % (c, n, str(base).split('::')[-1], ref),
                                props_of_module(fk)))
        elif len(lst) >= 2:
            out.append(Inst('R-CODE', 'R-CODE|%s|offset' % base, 'ok', '', 'all %d level loops address the fragment at `len - l %+d`' % (len(lst), lst[0][0][0]), props_of_module(str(base))))
    if not out:
        out.append(Inst('R-CODE', 'R-CODE|none', 'note', '', 'no fragment extraction from a code record recognised', ['C02'], nontrivial=False))
    return out


def _const_part(t, sign=1):
    t = strip_casts(t)
    if not isinstance(t, tuple) or not t:
        return 0
    if t[0] == 'const':
        return sign * t[1] if isinstance(t[1], int) else 0
    if t[0] == 'bin' and t[1] == 'Add':
        return _const_part(t[2], sign) + _const_part(t[3], sign)
    if t[0] == 'bin' and t[1] == 'Sub':
        return _const_part(t[2], sign) + _const_part(t[3], -sign)
    return 0


def rule_HORD(FA):
    """The iteration order of a HashMap / HashSet is unspecified: a function that turns such an iteration into a sequence
    (collect / push) sorts that sequence before its positions mean anything.  Without the sort, ranks assigned by position
    (text_remap) or codes assigned in sequence (craft_wm_codes) follow the hash order."""
    out = []
    for f in FA.lib_fns(include_closures=False):
        its, sorts, seqs = [], [], []
        for g in FA.with_closures(f):
            G = FA.fn(g)
            for bi, t in G.calls():
                fn = t['f']['fn']
                if fn['name'] in ('iter', 'into_iter', 'keys', 'values', 'drain', 'iter_mut', 'into_keys', 'into_values') and t['args'] and 'p' in t['args'][0]:
                    ty = G.locals[t['args'][0]['p']['l']]
                    if 'HashMap' in ty or 'HashSet' in ty:
                        its.append(t.get('line', ''))
                if fn['name'].startswith('sort') or fn['name'] in ('BTreeMap', 'BTreeSet') or 'BTree' in fn.get('path', '') or 'BinaryHeap' in fn.get('path', ''):
                    sorts.append(fn['name'])
                if fn['name'] in ('collect', 'push', 'extend', 'from_iter'):
                    seqs.append(fn['name'])
        if not its or not seqs:
            continue
        key = 'R-HORD|%s' % fn_key(f)
        props = sorted(set(props_of_module(fn_key(f))) | ({'C15'} if 'craft' in f['name'] else set()))
        if sorts:
            out.append(Inst('R-HORD', key, 'ok', f['span'], 'the sequence built from a hash iteration is ordered by `%s`' % sorts[0], props))
        else:
            out.append(Inst('R-HORD', key, 'violation', its[0],
                            '`%s` builds a sequence from the iteration of a HashMap / HashSet and never sorts it: positions in that sequence follow the (unspecified, per-process) hash order' % f['name'], props))
    if not out:
        out.append(Inst('R-HORD', 'R-HORD|none', 'note', '', 'no sequence is built from a hash-container iteration', ['C17'], nontrivial=False))
    return out


def rule_NCNT(FA):
    """A constructor that records a count `n` in a field and fills its vectors in a loop over `0..=n` runs that loop n + 1
    times: one more element than recorded is built and retained (the readers, which go by the recorded count, never see it)."""
    out = []
    for f in FA.lib_fns(include_closures=False):
        base = f.get('_base')
        if f['name'] != 'new' or base not in FA.adts or f['derived']:
            continue
        adt = FA.adts[base]
        names = [x['name'] for x in adt['fields']]
        cnt_fields = [n for n in names if n.startswith('n_') and n not in ('n_bits', 'n_ones', 'n_zeros')]
        if not cnt_fields:
            continue
        owner = FA.canon_type(base) or base
        G = FA.inlined(f)
        for spec in FA.specs(f):
            F = FA.fn(G, spec)
            F.dom()
            stored = {}
            for bi, b in enumerate(F.blocks):
                if bi not in F.reach:
                    continue
                for s_ in b['s']:
                    rv = s_['rv']
                    if rv['k'] == 'agg' and rv['kind'].get('adt') == owner:
                        for n in cnt_fields:
                            k = names.index(n)
                            if k < len(rv['ops']):
                                tm = norm(F.operand_term(rv['ops'][k]))
                                if tm[:1] != ('const',):
                                    stored[n] = tm
            if not stored:
                continue
            key = 'R-NCNT|%s%s' % (fn_key(f), spec_key(spec))
            props = sorted(set(props_of_module(fn_key(f))) | {'C14'})
            bad = None
            n_rng = 0
            for bi, t in F.calls():
                fn = t['f']['fn']
                if fn['name'] == 'new' and 'RangeInclusive' in fn.get('path', '') and len(t['args']) == 2:
                    end = norm(F.operand_term(t['args'][1]))
                    start = norm(F.operand_term(t['args'][0]))
                    for n, tm in stored.items():
                        if end == tm and start == ('const', 0):     # `1..=n` runs n times
                            bad = (t.get('line', ''), n)
            for bi, b in enumerate(F.blocks):
                for s_ in b['s']:
                    rv = s_['rv']
                    if rv['k'] == 'agg' and rv['kind'].get('adt') == 'std::ops::Range' and len(rv['ops']) == 2:
                        end = norm(F.operand_term(rv['ops'][1]))
                        if any(end == tm for tm in stored.values()):
                            n_rng += 1
            if bad:
                out.append(Inst('R-NCNT', key, 'violation', bad[0],
                                'the constructor stores `%s` and fills its vectors in a loop over `0..=%s`: the loop runs one more time than the recorded count, an extra element is built and retained' % (bad[1], bad[1]), props))
            elif n_rng:
                out.append(Inst('R-NCNT', key, 'ok', f['span'], 'the loop over the recorded count is half-open (`0..%s`)' % list(stored)[0], props))
    if not out:
        out.append(Inst('R-NCNT', 'R-NCNT|none', 'note', '', 'no constructor loops over a count it records', ['C14'], nontrivial=False))
    return out


def rule_CGEN(FA):
    """A const generic parameter that selects the behaviour of a type (block size) or of a function (number of words) is
    USED by the code: (a) a function never leaves its own const parameter unused; (b) an impl that is generic in a const
    parameter does not hard-wire one instantiation of its own type (`RSSupportPlain::<256>::f` called from code generic
    in B_SIZE); (c) a type's const parameter reaches at least one function body or associated constant."""
    out = []
    # (a) free functions (their generics are their own)
    for f in FA.lib_fns(include_closures=False):
        if f.get('_base') or f.get('impl_self'):
            continue
        own = [g['name'] for g in f.get('generics', []) if g['kind'] == 'const']
        for c in own:
            # used as a value in the body, or in the types of the signature (`[Vec<T>; N]`)
            # ... or handed on to a callee / a local's type (`GroupCursors::<N>::new(..)`)
            in_sig = any(re.search(r'\b%s\b' % re.escape(c), ty) for g in FA.with_closures(f) for ty in g['locals'])
            passed = any(c in [str(x) for x in t['f']['fn'].get('gargs', [])] for g in FA.with_closures(f) for b in g['blocks'] for t in [b['t']] if t['k'] == 'call' and 'fn' in t['f'])
            used = in_sig or passed or any(c in _mentions_const(g, c) for g in FA.with_closures(f))
            key = 'R-CGEN|%s|%s' % (fn_key(f), c)
            props = props_of_module(fn_key(f))
            if used:
                out.append(Inst('R-CGEN', key, 'ok', f['span'], 'const parameter `%s` is used' % c, props, nontrivial=False))
            else:
                out.append(Inst('R-CGEN', key, 'violation', f['span'], 'the const parameter `%s` of `%s` is not used by its body: every instantiation computes the same thing' % (c, f['name']), props))
    # (b) a fixed instantiation of a const-generic type used by the code of that type: a method (or a helper it calls) that
    #     is generic in the parameter calls a method of the type with a LITERAL in its place (`<RSSupportPlain>::f()` outside
    #     the impl block silently means the default, RSSupportPlain<256>)
    for base, adt in sorted(FA.adts.items()):
        adt_cps = [g['name'] for g in adt.get('generics', []) if g.get('kind') == 'const']
        if not adt_cps or '::_::' in base:
            continue
        short = base.split('::')[-1]
        n_gen = len(adt.get('generics', []))
        methods = [f for f in FA.lib_fns(include_closures=False) if f.get('_base') == base]
        reach = set()
        for m_ in methods:
            st = [m_['path']]
            for _ in range(3):
                st = [c for p_ in st for c in FA.callees_of(FA.fns[p_]) if c in FA.fns]
                reach.update(st)
            reach.add(m_['path'])
        for h in FA.lib_fns():
            if h['path'] not in reach and FA.closure_parent(h)['path'] not in reach:
                continue
            for b in h['blocks']:
                t = b['t']
                if t['k'] != 'call' or 'fn' not in t['f']:
                    continue
                fn = t['f']['fn']
                if not re.search(r'\b%s::<' % re.escape(short), fn.get('path', '')):
                    continue
                ga = [str(g) for g in fn.get('gargs', []) if not str(g).startswith("'")]
                lits = [g for g in ga[:n_gen] if re.fullmatch(r'\d+|true|false', g)]
                if lits:
                    ph = FA.closure_parent(h)
                    out.append(Inst('R-CGEN', 'R-CGEN|%s|fixed %s' % (fn_key(ph), lits[0]), 'violation', t.get('line', ''),
                                    '`%s`, which serves every instantiation of %s, calls `%s` on the fixed instantiation %s<%s>: for the other instantiations it computes with the wrong parameter' % (
                                        ph['name'], short, fn['name'], short, lits[0]), sorted(set(props_of_module(base)) | {'C14'})))
    # (c) const parameters of types: some associated constant depends on the parameter, or some body reads it
    for base, adt in sorted(FA.adts.items()):
        cps = [g['name'] for g in adt.get('generics', []) if g.get('kind') == 'const' and g.get('ty', 'usize') != 'bool']
        if not cps or '::_::' in base or not adt.get('exported'):
            continue
        short = base.split('::')[-1]
        for c in cps:
            assoc = [(k, v) for k, v in FA.consts.items() if v.get('assoc') and re.search(r'\b%s\s*(?:::)?<[^>]*\b%s\b' % (re.escape(short), re.escape(c)), k)]
            dependent = [k for k, v in assoc if v.get('val') is None]
            direct = any(c in _mentions_const(g, c) for f in FA.lib_fns(include_closures=False) if f.get('_base') == base for g in FA.with_closures(f))
            key = 'R-CGEN|%s|%s' % (base, c)
            props = sorted(set(props_of_module(base)) | {'C14'})
            if dependent or direct:
                out.append(Inst('R-CGEN', key, 'ok', adt['span'], 'const parameter `%s` reaches %s' % (c, ('`%s`' % dependent[0].split('::')[-1]) if dependent else 'a function body'), props))
            elif assoc:
                out.append(Inst('R-CGEN', key, 'violation', adt['span'],
                                'no associated constant and no function of %s depends on its const parameter `%s` (e.g. `%s` = %s for every instantiation): the instantiations the aliases name (256 / 512) are the same structure' % (
                                    short, c, assoc[0][0].split('::')[-1], assoc[0][1].get('val')), props))
    if not out:
        out.append(Inst('R-CGEN', 'R-CGEN|none', 'note', '', 'no const-generic item', ['C14'], nontrivial=False))
    return out


def _mentions_const(f, c):
    """does the MIR of f read the const parameter c as a VALUE (a constant operand `c`, or an unevaluated constant
    expression over it)?  Generic arguments handed on to callees and type names are not uses of the value."""
    found = []

    def walk(x):
        if isinstance(x, dict):
            if 'c' in x and isinstance(x['c'], str):
                txt = re.sub(r'<[^<>]*>', '<>', x['c'])     # drop generic argument lists
                txt = re.sub(r'<[^<>]*>', '<>', txt)
                if re.search(r'\b%s\b' % re.escape(c), txt):
                    found.append(x['c'])
            for k, v in x.items():
                if k in ('gargs', 'self_ty', 'path', 'full', 'ty'):
                    continue
                walk(v)
        elif isinstance(x, list):
            for v in x:
                walk(v)
    walk(f['blocks'])
    return {c} if found else set()
