"""R-EFF (queries are pure), R-PF (prefetching is a pure hint)."""
import hashlib
import json

from .core import *
from .report import Inst
from . import r_types
from .r_arith import taint, operand_locals

IMMUTABLE = ['bitvector::BitVector', 'qvector::QVector', 'qvector::rs_qvector::RSQVector', 'bitvector::rs_narrow::RSNarrow',
             'bitvector::rs_wide::RSWide', 'darray::DArray', 'quadwt::QWaveletTree', 'quadwt::huffqwt::HuffQWaveletTree',
             'binwt::WaveletTree', 'qvector::rs_qvector::rs_support_plain::RSSupportPlain', 'quadwt::prefetch_support::PrefetchSupport',
             'darray::Inventories', 'bitvector::DataLine', 'qvector::DataLine', 'qvector::rs_qvector::rs_support_plain::SuperblockPlain']

WRITE_CALLEES = ('write', 'write_volatile', 'write_unaligned', 'write_bytes', 'copy', 'copy_nonoverlapping', 'swap', 'replace',
                 'from_raw_parts_mut', 'as_mut_ptr', 'get_mut', 'get_unchecked_mut', 'set', 'store', 'fetch_add', 'fetch_sub',
                 'fetch_or', 'fetch_and', 'compare_exchange', 'borrow_mut', 'lock', 'transmute', 'drop_in_place')
IO_CALLEES = ('_print', '_eprint', 'print', 'eprint', 'stdout', 'stderr', 'open', 'create', 'write_all', 'read_to_end')


def query_entries(FA):
    """Exported methods taking &self on the immutable query structures."""
    for f in FA.lib_fns(include_closures=False):
        if f.get('_base') in IMMUTABLE and f['exported'] and f['argc'] >= 1 and f['locals'][1].startswith('&') \
                and not f['locals'][1].startswith('&mut') and f['names'].get('1') == 'self':
            yield f


def effects_of(FA, f):
    """Effect-relevant operations directly in f: (kind, description, line)."""
    out = []
    for b in f['blocks']:
        for s in b['s']:
            if 'lhs' in s:
                pr = s['lhs']['proj']
                if '*' in pr:
                    lt = f['locals'][s['lhs']['l']]
                    if lt.startswith('*mut') or lt.startswith('*const'):
                        if 'vec' in s.get('macros', []) or '$crate::vec' in s.get('macros', []):
                            continue
                        out.append(('raw-write', 'assignment through raw pointer %s' % lt, s['line']))
                    elif lt.startswith('&') and not lt.startswith('&mut'):
                        out.append(('shared-write', 'assignment through shared reference %s' % lt, s['line']))
            elif 'stmt' in s:
                if 'copy_nonoverlapping' in s['stmt']:
                    out.append(('raw-write', 'intrinsic ' + s['stmt'][:40], s['line']))
        t = b['t']
        if t['k'] == 'call' and 'fn' in t['f']:
            fn = t['f']['fn']
            if fn['local']:
                continue
            nm = fn['name']
            p = fn['path']
            if nm in IO_CALLEES and ('std::io' in p or 'std::fs' in p):
                out.append(('io', p, t['line']))
            elif nm in WRITE_CALLEES and (p.startswith('std::ptr') or p.startswith('core::ptr') or 'std::cell' in p or 'atomic' in p
                                          or p.startswith('std::mem::transmute') or p.startswith('std::intrinsics') or p.startswith('core::intrinsics')
                                          or 'std::sync' in p or nm in ('from_raw_parts_mut', 'as_mut_ptr', 'get_unchecked_mut', 'transmute')):
                # slice/Vec `get_mut`, `swap` on owned locals are ordinary safe mutation of locals, not of self
                a0 = t['args'][0] if t['args'] else None
                out.append(('write-call', p, t['line']))
    return out


def rule_EFF(FA):
    out = []
    props = ['C18', 'C09', 'C11']
    reach = {}
    entries = list(query_entries(FA))
    for e in entries:
        seen = set()
        st = [e['path']]
        while st:
            p = st.pop()
            if p in seen:
                continue
            seen.add(p)
            for q in FA.callees_of(FA.fns[p]):
                g = FA.fns[q]
                # construction helpers reached through Default/From of components are not query paths
                st.append(q)
        reach[e['path']] = seen
    judged = {}
    for e in entries:
        bad = []
        notes = []
        for p in sorted(reach[e['path']]):
            g = FA.fns[p]
            if p not in judged:
                judged[p] = effects_of(FA, g)
            for kind, what, line in judged[p]:
                if kind == 'io':
                    notes.append((kind, what, line, fn_key(g)))
                else:
                    bad.append((kind, what, line, fn_key(g)))
        key = 'R-EFF|%s' % fn_key(e)
        if bad:
            k, w, l, g = bad[0]
            out.append(Inst('R-EFF', key, 'violation', l, 'query path reaches a write effect: %s in %s (%d effect sites)' % (w, g, len(bad)), props,
                            sample={'effects': [list(x) for x in bad[:5]]}))
        else:
            out.append(Inst('R-EFF', key, 'ok', e['span'], '%d functions on the query path, no write through shared state%s' % (
                len(reach[e['path']]), (' (I/O: %s)' % notes[0][1]) if notes else ''), props,
                sample={'functions_reached': len(reach[e['path']])}))
        for k, w, l, g in notes[:1]:
            out.append(Inst('R-EFF', key + '|io', 'note', l, 'I/O callee %s in %s (does not modify the structure)' % (w, g), props, nontrivial=False))
    # immutable types expose no exported &mut self method
    for f in FA.lib_fns(include_closures=False):
        if f.get('_base') in IMMUTABLE and f['exported'] and f['argc'] >= 1 and f['locals'][1].startswith('&mut') and f['names'].get('1') == 'self':
            out.append(Inst('R-EFF', 'R-EFF|%s|&mut self' % fn_key(f), 'violation', f['span'],
                            'immutable query structure exposes a `&mut self` method', ['C18']))
    return out


# ---------------------------------------------------------------- R-PF

PF_ALLOWED = ('as_ptr', 'wrapping_add', 'wrapping_offset', 'wrapping_byte_add', 'wrapping_sub', 'cast', '_mm_prefetch', '_prefetch',
              'prefetch_read_data', 'len', 'is_empty')


def _fingerprint(f):
    def strip(o):
        if isinstance(o, dict):
            return {k: strip(v) for k, v in o.items() if k not in ('line', 'span', 'macros')}
        if isinstance(o, list):
            return [strip(x) for x in o]
        return o
    return hashlib.sha256(json.dumps(strip(f['blocks']), sort_keys=True).encode()).hexdigest()


def _deleg_nf(FA, ret, spec, depth=0):
    """Expand a return term `g(args)` through private functions g whose own result is again a single call."""
    for _ in range(3):
        if not (isinstance(ret, tuple) and ret[:1] == ('call',)):
            break
        g = next((x for x in FA.fns.values() if strip_generics(x['path']) == ret[1] and x['kind'] != 'Closure'), None)
        if g is None or (g['exported'] and not g['unsafe']) or g['pub']:
            break
        G = FA.fn(g, {k: v for k, v in (spec or {}).items() if k in FA.const_params(g)})
        inner = norm(G.local_term(0))
        if inner[0] != 'call' or has_unknown(inner):
            break
        ret = norm(subst(inner, g, list(ret[2])))
    return ret


def _same_worker(FA, f, ret, base, spec):
    """rank_prefetch_unchecked and rank_unchecked both end in the same private worker, with arguments that are equal or
    computed from the same parameters (the prefetching phase contributes nothing to the call)."""
    ru = [g for g in FA.by_base_name.get((base, 'rank_unchecked'), [])]
    if not ru:
        return False
    R = FA.fn(ru[0], {k: v for k, v in (spec or {}).items() if k in FA.const_params(ru[0])})
    a = _deleg_nf(FA, ret, spec)
    b = _deleg_nf(FA, norm(R.local_term(0)), spec)
    # positional renaming of rank_unchecked's parameters to f's
    ren = {('param', ru[0]['names'].get(str(k), '_%d' % k)): ('param', f['names'].get(str(k), '_%d' % k)) for k in range(1, f['argc'] + 1)}

    def go(x):
        if isinstance(x, tuple):
            return ren.get(x, tuple(go(y) for y in x))
        return x
    b = go(b)
    if not (a[:1] == ('call',) and b[:1] == ('call',) and a[1] == b[1] and len(a[2]) == len(b[2])):
        return False
    if a[1].split('::')[-1] in ('rank_prefetch_unchecked',):
        return False
    for x, y in zip(a[2], b[2]):
        if x == y:
            continue
        px = {z for z in subterms(x) if isinstance(z, tuple) and z and z[0] == 'param'}
        py = {z for z in subterms(y) if isinstance(z, tuple) and z and z[0] == 'param'}
        if not px or px != py:
            return False
    return True


def rule_PF(facts):
    FA = facts['default']
    out = []
    props = ['C09', 'C10']    # rank_prefetch(_unchecked) is also a checked / unchecked twin of rank: a fault on the prefetch path separates them
    # (a) rank_prefetch_unchecked returns exactly rank_unchecked(self, symbol, i)
    n_a = 0
    for base in ('quadwt::QWaveletTree', 'quadwt::huffqwt::HuffQWaveletTree'):
        cands = [f for f in FA.by_base_name.get((base, 'rank_prefetch_unchecked'), [])]
        key = 'R-PF|a|%s::rank_prefetch_unchecked' % base
        if not cands:
            out.append(Inst('R-PF', key, 'violation', '', 'method not found (anchor lost)', props))
            continue
        f = cands[0]
        for spec in FA.specs(f):
            F = FA.fn(f, spec)
            ret = norm(F.local_term(0))
            params = tuple(('param', f['names'].get(str(k), '_%d' % k)) for k in range(1, f['argc'] + 1))
            n_a += 1
            k2 = key + spec_key(spec)
            if ret[0] == 'call' and ret[1].split('::')[-1] == 'rank_unchecked' and tuple(ret[2]) == params:
                out.append(Inst('R-PF', k2, 'ok', f['span'], 'returns rank_unchecked(self, symbol, i) on the untouched parameters', props,
                                sample={'return': show(ret)}))
            elif _same_worker(FA, f, ret, base, spec):
                out.append(Inst('R-PF', k2, 'ok', f['span'], 'returns the same private worker call as rank_unchecked, on arguments computed from the same parameters', props,
                                sample={'return': show(ret)}))
            else:
                out.append(Inst('R-PF', k2, 'violation', f['span'],
                                'return value is `%s`, not rank_unchecked on the untouched arguments: the estimation phase can influence the answer' % show(ret)[:120], props,
                                sample={'return': show(ret)}))
    # (b) prefetch_read_NTA (and private helpers it hands the pointer to): offset only into wrapping pointer arithmetic,
    #     pointer only into the prefetch intrinsic, nothing dereferenced, nothing returned
    pf = FA.fns.get('utils::prefetch_read_NTA') or next((g for q, g in FA.fns.items() if q.endswith('::prefetch_read_NTA') and q.startswith('utils')), None)
    pf_closure = []
    if pf is None:
        out.append(Inst('R-PF', 'R-PF|b|prefetch_read_NTA', 'violation', '', 'function not found (anchor lost)', props))
    else:
        bad = []
        todo = [pf]
        seen = set()
        while todo:
            g = todo.pop()
            if g['path'] in seen:
                continue
            seen.add(g['path'])
            pf_closure.append(g['path'])
            for b in g['blocks']:
                t = b['t']
                if t['k'] == 'call' and 'fn' in t['f']:
                    fn = t['f']['fn']
                    nm = fn['name']
                    if nm in PF_ALLOWED:
                        pass
                    else:
                        cands = FA.resolve(fn)
                        if len(cands) == 1 and not cands[0]['exported'] and cands[0]['path'].startswith('utils::') and cands[0]['locals'][0] == '()':
                            todo.append(cands[0])     # private hint helper: judged by the same rule
                        else:
                            bad.append('call to `%s`' % fn['path'])
                if t['k'] == 'assert' and 'bounds' in t.get('msg', {}):
                    bad.append('indexing')
                for s2 in b['s']:
                    rv = s2.get('rv')
                    if rv:
                        for o in [rv.get('a'), rv.get('b')] + list(rv.get('ops', [])):
                            if o and 'p' in o and '*' in o['p']['proj'] and g['locals'][o['p']['l']].startswith('*'):
                                bad.append('dereference of the computed pointer')
                        if 'p' in rv and '*' in rv['p']['proj'] and g['locals'][rv['p']['l']].startswith('*'):
                            bad.append('dereference of the computed pointer')
            if g['locals'][0] != '()':
                bad.append('returns a value (%s)' % g['locals'][0])
        if bad:
            out.append(Inst('R-PF', 'R-PF|b|prefetch_read_NTA', 'violation', pf['span'],
                            'prefetch address must use wrapping pointer arithmetic and only reach the prefetch intrinsic; found: %s' % '; '.join(sorted(set(bad))), props))
        else:
            out.append(Inst('R-PF', 'R-PF|b|prefetch_read_NTA', 'ok', pf['span'], 'offset -> wrapping_add -> prefetch intrinsic only; returns ()', props,
                            sample={'functions': pf_closure}))
    # (c) prefetch_* implementations: the position only feeds arithmetic and prefetch calls
    n_c = 0
    for f in FA.lib_fns(include_closures=False):
        if f['name'] not in ('prefetch_info', 'prefetch_data', 'prefetch', 'prefetch_line') or f['impl_self'] == 'Self':
            continue
        seeds = [i for i in range(2, f['argc'] + 1) if f['locals'][i] == 'usize']
        if not seeds:
            continue
        F = FA.fn(f)
        T = taint_all(F, seeds)
        bad = []
        for bi, b in enumerate(F.blocks):
            t = b['t']
            for s in b['s']:
                rv = s.get('rv')
                if not rv:
                    continue
                for o in [rv.get('a'), rv.get('b')] + list(rv.get('ops', [])) + ([{'p': rv['p']}] if 'p' in rv else []):
                    if o and 'p' in o:
                        for e in o['p']['proj']:
                            if isinstance(e, dict) and 'idx' in e and e['idx'] in T:
                                bad.append('indexing with the position estimate')
            if t['k'] == 'assert' and 'bounds' in t.get('msg', {}):
                idx = t['msg']['index']
                if 'p' in idx and idx['p']['l'] in T:
                    bad.append('bounds-checked indexing with the position estimate (can panic)')
            if t['k'] == 'call' and 'fn' in t['f']:
                fn = t['f']['fn']
                targ = [ai for ai, a in enumerate(t['args']) if any(x in T for x in operand_locals(a))]
                cands = FA.resolve(fn)
                pure_helper = len(cands) == 1 and summary(FA, cands[0]) is not None
                if targ and not pure_helper and not (fn['name'].startswith('prefetch') or fn['name'] in ('min', 'max', 'wrapping_add', 'saturating_sub', 'saturating_add', 'wrapping_mul')):
                    bad.append('position estimate passed to `%s`' % short_callee(fn))
        n_c += 1
        key = 'R-PF|c|%s' % fn_key(f)
        if bad:
            out.append(Inst('R-PF', key, 'violation', f['span'], 'prefetch position must only feed arithmetic and prefetch calls; found: %s' % '; '.join(sorted(set(bad))), props))
        else:
            out.append(Inst('R-PF', key, 'ok', f['span'], 'position flows only into arithmetic and prefetch calls', props))
    # (e) sampled bit vectors: the writer closes chunk j when it reaches index j * rate (so after scanning position i
    #     there are (i / rate) + 1 bits), and the reader asks rank1((i >> shift) + 1) and unwraps it
    from .r_layout import _affine
    pw = (FA.by_base_name.get(('quadwt::prefetch_support::PrefetchSupport', 'new'), []) or [None])[0]
    pr = (FA.by_base_name.get(('quadwt::prefetch_support::PrefetchSupport', 'approx_rank_unchecked'), []) or [None])[0]
    key = 'R-PF|e|PrefetchSupport sample count'
    props_e = props + ['C14', 'C04']
    if pw is None or pr is None:
        out.append(Inst('R-PF', key, 'violation', '', 'PrefetchSupport::new / approx_rank_unchecked not found (anchor lost)', props_e))
    else:
        W = FA.fn(pw)
        woff = []
        for b in W.blocks:
            for s in b['s']:
                rv = s.get('rv')
                if rv and rv['k'] == 'bin' and rv['op'] in ('Rem', 'BitAnd'):
                    x = norm(W.operand_term(rv['a']))
                    m = norm(W.operand_term(rv['b']))
                    if rv['op'] == 'BitAnd' and not any(isinstance(z, tuple) and z and z[0] == 'call' and z[1].split('::')[-1] == 'enumerate' for z in subterms(x)):
                        x, m = m, x
                    base, c = _affine(x)
                    if any(isinstance(z, tuple) and z and z[0] == 'call' and z[1].split('::')[-1] == 'enumerate' for z in subterms(base)):
                        if rv['op'] == 'BitAnd':
                            # `i & (rate - 1)` is `i % rate`; `i & rate` is not
                            mb, mc = _affine(m)
                            if mc != -1:
                                woff.append((10 ** 6, s['line']))
                                continue
                        woff.append((c, s['line']))
        R2 = FA.fn(pr)
        rplus = []
        for bi, t in R2.calls():
            if t['f']['fn']['name'] == 'rank1' and len(t['args']) == 2:
                a = norm(R2.operand_term(t['args'][1]))
                base, c = _affine(a)
                if base[0] == 'bin' and base[1] in ('Shr', 'Div'):
                    rplus.append((c, t['line']))
        # the writer pushes `true` for a block that holds a sampled occurrence: the reader counts ONES of the sample vector
        zero_reads = [t for bi, t in R2.calls() if t['f']['fn']['name'] in ('rank0', 'rank0_unchecked', 'n_zeros', 'select0') and len(t['args']) >= 1
                      and any(isinstance(z, tuple) and z[:2] == ('field', ('param', 'self')) for z in subterms(norm(R2.operand_term(t['args'][0]))))]
        if zero_reads and not rplus:
            out.append(Inst('R-PF', key + '|ones', 'violation', zero_reads[0].get('line', ''),
                            'approx_rank_unchecked asks the sample vector for `%s`: the constructor marks sampled blocks with ONE bits, so the estimate is the number of blocks WITHOUT a sampled occurrence (it exceeds the level length and the unchecked paths that take it unwrap)' % zero_reads[0]['f']['fn']['name'], props_e))
        elif not woff or not rplus:
            out.append(Inst('R-PF', key, 'violation', pw['span'], 'chunk-closing test `index %% rate` or reader `rank1((i >> shift) + c)` not found (anchor lost)', props_e))
        elif all(c == 0 for c, _ in woff) and all(c == 1 for c, _ in rplus):
            out.append(Inst('R-PF', key, 'ok', woff[0][1], 'writer closes a chunk at index %% rate == 0 (0-based); reader ranks (i >> shift) + 1 sample bits', props_e,
                            sample={'writer_offset': [c for c, _ in woff], 'reader_plus': [c for c, _ in rplus]}))
        elif any(c == 10 ** 6 for c, _ in woff):
            out.append(Inst('R-PF', key, 'violation', woff[0][1],
                            'the chunk-closing test masks the index with a value that is not rate - 1 (`i & rate` is not `i %% rate`): chunks are closed at the wrong positions, so the sample vectors have the wrong density and length', props_e))
        else:
            out.append(Inst('R-PF', key, 'violation', woff[0][1],
                            'writer closes chunks at (index %+d) %% rate == 0 and the reader ranks (i >> shift) %+d bits and unwraps: the sample vector can be one bit short (panic on a position at a chunk boundary)' % (
                                woff[0][0], rplus[0][0]), props_e, sample={'writer_offset': [c for c, _ in woff], 'reader_plus': [c for c, _ in rplus]}))
    # (g) hint-only helpers (`prefetch_*`, returning ()): they are handed ESTIMATED positions, which may be anything -- 0
    #     included -- so a checked subtraction from a value computed from the position needs its own guard
    for f in FA.lib_fns(include_closures=False):
        if not f['name'].startswith('prefetch') or f['locals'][0] not in ('()',):
            continue
        F = FA.fn(f)
        F.dom()
        params = [('param', f['names'].get(str(k), '_%d' % k)) for k in range(2, f['argc'] + 1)]
        n_sub = 0
        bad = None
        for bi, b in enumerate(F.blocks):
            if bi not in F.reach:
                continue
            for s_ in b['s']:
                rv = s_.get('rv')
                if not rv or rv['k'] != 'bin' or rv['op'] != 'SubWithOverflow' or any(m.startswith('debug_assert') for m in s_.get('macros', [])):
                    continue
                a = norm(F.operand_term(rv['a']))
                if not any(contains(a, p_) for p_ in params):
                    continue
                n_sub += 1
                sub = norm(F.operand_term(rv['b']))
                guarded = False
                for at in path_atoms(F, bi):
                    if at[0] in ('<', '<=', '!=') and isinstance(at[2], tuple) and (strip_casts(at[1]) == strip_casts(a) or strip_casts(at[2]) == strip_casts(a)
                                                                                    or any(p_ in (strip_casts(at[1]), strip_casts(at[2])) for p_ in params)):
                        guarded = True
                if not guarded and bad is None:
                    bad = (s_.get('line', ''), '%s - %s' % (show(a)[:40], show(sub)[:20]))
        key = 'R-PF|g|%s' % fn_key(f)
        if bad:
            out.append(Inst('R-PF', key, 'violation', bad[0],
                            '`%s` subtracts from a value computed from the (estimated) position with no test in front of it (`%s`): for an estimate of 0 the hint path panics in builds with overflow checks, where the exact query answers' % (f['name'], bad[1]), props + ['C04']))
        elif n_sub:
            out.append(Inst('R-PF', key, 'ok', f['span'], '%d subtraction(s) from position-derived values, each guarded' % n_sub, props + ['C04']))
    # (d) feature independence: default vs nofeat differ only in prefetch_read_NTA
    NF = facts.get('nofeat')
    if NF is not None:
        diff = []
        for p, f in FA.fns.items():
            g = NF.fns.get(p)
            if 'perf_and_test_utils' in p:
                continue
            if g is None:
                diff.append(p + ' (missing without the feature)')
            elif _fingerprint(f) != _fingerprint(g):
                diff.append(p)
        for p in NF.fns:
            if p not in FA.fns and 'perf_and_test_utils' not in p:
                diff.append(p + ' (only without the feature)')
        extra = [p for p in diff if p.split(' ')[0] not in (pf_closure or ['utils::prefetch_read_NTA'])]
        if extra:
            out.append(Inst('R-PF', 'R-PF|d|feature-independence', 'violation', '',
                            'bodies other than utils::prefetch_read_NTA differ between feature `prefetch` on and off: %s' % ', '.join(extra[:5]), props))
        else:
            out.append(Inst('R-PF', 'R-PF|d|feature-independence', 'ok', '',
                            '%d bodies identical with and without feature `prefetch`; only prefetch_read_NTA differs (%d)' % (len(FA.fns) - len(diff), len(diff)), props,
                            sample={'bodies_compared': len(FA.fns), 'differing': diff}))
    # (f) the estimates of the prefetching phase are estimates: no assertion (debug or not) may depend on a value obtained
    #     from the sampled ranks -- "imprecise but never a panic"
    for base in ('quadwt::QWaveletTree', 'quadwt::huffqwt::HuffQWaveletTree'):
        for f in FA.lib_fns(include_closures=False):
            if f.get('_base') != base or 'prefetch' not in f['name']:
                continue
            G = FA.inlined(f, _keep_prefetch_support)
            F = FA.fn(G)
            F.dom()
            seeds = [t['dest']['l'] for bi, t in F.calls() if t['f']['fn']['name'] in ('approx_rank_unchecked',) and not t['dest']['proj']]
            if not seeds:
                continue
            T = taint_all(F, seeds)
            bad = None
            asserts = set(F.debug_switches())
            for bi, b in enumerate(F.blocks):
                t = b['t']
                if t['k'] == 'switch' and any(m in ('assert', 'assert_eq', 'assert_ne') or m.startswith('debug_assert') for m in t.get('macros', [])):
                    asserts.add(bi)
            for bi in sorted(asserts):
                if bi not in F.reach:
                    continue
                d = F.blocks[bi]['t']['d']
                ls = set(operand_locals(d))
                # the discriminant is a temporary: look one definition back
                for l in list(ls):
                    for dd in F.defs.get(l, []):
                        if dd[1] == 'assign':
                            for o in [dd[2].get('a'), dd[2].get('b')]:
                                if o:
                                    ls |= set(operand_locals(o))
                if ls & T:
                    bad = F.blocks[bi]['t'].get('line', '')
            key = 'R-PF|f|%s::%s' % (base, f['name'])
            if bad:
                out.append(Inst('R-PF', key, 'violation', bad, 'an assertion in the prefetching phase depends on a sampled (approximate) rank: the estimate may be off by one sample, the assertion turns an imprecise hint into a panic', props + ['C10']))
            else:
                out.append(Inst('R-PF', key, 'ok', f['span'], 'no assertion depends on a sampled rank', props))
    return out


def _keep_prefetch_support(g):
    return default_inline_policy(g) and 'PrefetchSupport' not in g['path']


def taint_all(F, seeds):
    """Taint including results of calls that take a tainted argument (conservative for hint code)."""
    T = taint(F, seeds)
    changed = True
    while changed:
        changed = False
        for b in F.blocks:
            t = b['t']
            if t['k'] == 'call' and not t['dest']['proj']:
                if any(x in T for a in t['args'] for x in operand_locals(a)) and t['dest']['l'] not in T:
                    T.add(t['dest']['l'])
                    changed = True
        T2 = taint(F, list(T))
        if T2 != T:
            T = T2
            changed = True
    return T
