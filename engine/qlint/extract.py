"""Fact extraction: run the rustc_private driver over /repo's current working tree.

One fact file per configuration, cached under /verif/.cache/<content hash>/<config>.json.
The hash covers every file the lib target is built from plus the driver binary, and is recomputed
on every invocation, so a check always decides the tree as it is *now*.
"""
import fcntl
import hashlib
import json
import os
import shutil
import subprocess
import sys
import tempfile
import time

VERIF = os.path.dirname(os.path.dirname(os.path.dirname(os.path.abspath(__file__))))
REPO = os.environ.get('QWT_REPO', '/repo')
CACHE = os.path.join(VERIF, '.cache')
DRIVER_DIR = os.path.join(VERIF, 'engine', 'facts-driver')
DRIVER = os.path.join(DRIVER_DIR, 'target', 'release', 'facts-driver')

CONFIGS = {
    # name: (cargo args, RUSTFLAGS extra)
    'default': ([], ''),
    'nofeat': (['--no-default-features'], ''),
    'rel': ([], '-C debug-assertions=off -C overflow-checks=off'),
}


def _sysroot():
    return subprocess.check_output(['rustc', '+nightly', '--print', 'sysroot'], text=True).strip()


def ensure_driver():
    if os.path.exists(DRIVER):
        src = os.path.join(DRIVER_DIR, 'src', 'main.rs')
        if os.path.getmtime(src) <= os.path.getmtime(DRIVER):
            return
    env = dict(os.environ, CARGO_NET_OFFLINE='true')
    r = subprocess.run(['cargo', 'build', '--release', '--offline'], cwd=DRIVER_DIR, env=env,
                       stdout=subprocess.PIPE, stderr=subprocess.STDOUT, text=True)
    if r.returncode != 0 or not os.path.exists(DRIVER):
        sys.stderr.write(r.stdout)
        raise SystemExit('qlint: cannot build facts-driver')


def tree_hash(repo=None):
    repo = repo or REPO
    h = hashlib.sha256()
    paths = []
    for root, dirs, files in os.walk(os.path.join(repo, 'src')):
        dirs.sort()
        for fn in sorted(files):
            paths.append(os.path.join(root, fn))
    for extra in ('Cargo.toml', 'Cargo.lock', 'README.md', 'build.rs'):
        p = os.path.join(repo, extra)
        if os.path.exists(p):
            paths.append(p)
    for p in paths:
        h.update(os.path.relpath(p, repo).encode())
        h.update(b'\0')
        with open(p, 'rb') as fh:
            h.update(fh.read())
        h.update(b'\0')
    with open(DRIVER, 'rb') as fh:
        h.update(hashlib.sha256(fh.read()).digest())
    return h.hexdigest()[:24]


def _run_config(repo, name, out_path, log_path):
    cargo_args, extra_flags = CONFIGS[name]
    tdir = tempfile.mkdtemp(prefix='qlint-target-%s-' % name)
    env = dict(os.environ)
    env.update({
        'CARGO_NET_OFFLINE': 'true',
        'LD_LIBRARY_PATH': _sysroot() + '/lib' + (':' + env['LD_LIBRARY_PATH'] if env.get('LD_LIBRARY_PATH') else ''),
        'RUSTFLAGS': ('-Zmir-opt-level=0 -Awarnings ' + extra_flags).strip(),
        'RUSTC_WORKSPACE_WRAPPER': DRIVER,
        'CARGO_TARGET_DIR': tdir,
        'QFACTS_OUT': out_path,
    })
    env.pop('RUSTC_WRAPPER', None)
    cmd = ['cargo', '+nightly', 'check', '--offline', '--lib'] + cargo_args
    p = subprocess.Popen(cmd, cwd=repo, env=env, stdout=open(log_path, 'w'), stderr=subprocess.STDOUT)
    return p, tdir


def extract(configs=('default', 'nofeat', 'rel'), repo=None, cache=True, quiet=False):
    """Return {config: path to fact file}; raises SystemExit(2) when the tree does not compile."""
    repo = repo or REPO
    ensure_driver()
    os.makedirs(CACHE, exist_ok=True)
    key = tree_hash(repo)
    lock = open(os.path.join(CACHE, key + '.lock'), 'w')
    fcntl.flock(lock, fcntl.LOCK_EX)
    try:
        d = os.path.join(CACHE, key)
        os.makedirs(d, exist_ok=True)
        try:
            os.utime(d, None)      # a directory in use is a recent directory: pruning leaves those alone
        except OSError:
            pass
        need = [c for c in configs if not (cache and os.path.exists(os.path.join(d, c + '.json')))]
        if need:
            t0 = time.time()
            procs = []
            for c in need:
                tmp_out = os.path.join(d, c + '.json.tmp')
                if os.path.exists(tmp_out):
                    os.remove(tmp_out)
                procs.append((c, tmp_out) + _run_config(repo, c, tmp_out, os.path.join(d, c + '.log')))
            failed = []
            for c, tmp_out, p, tdir in procs:
                rc = p.wait()
                shutil.rmtree(tdir, ignore_errors=True)
                if rc != 0 or not os.path.exists(tmp_out):
                    failed.append(c)
                else:
                    os.rename(tmp_out, os.path.join(d, c + '.json'))
            # a build that failed under load (many parallel cargo runs) is retried once, alone
            still = []
            for c in failed:
                tmp_out = os.path.join(d, c + '.json.tmp')
                p2, tdir2 = _run_config(repo, c, tmp_out, os.path.join(d, c + '.log'))
                rc = p2.wait()
                shutil.rmtree(tdir2, ignore_errors=True)
                if rc != 0 or not os.path.exists(tmp_out):
                    still.append(c)
                else:
                    os.rename(tmp_out, os.path.join(d, c + '.json'))
            failed = still
            if failed:
                for c in failed:
                    sys.stderr.write('qlint: extraction failed for config %s; log follows\n' % c)
                    try:
                        sys.stderr.write(open(os.path.join(d, c + '.log')).read()[-4000:])
                    except OSError:
                        pass
                raise SystemExit(2)
            if not quiet:
                sys.stderr.write('qlint: extracted %s in %.1fs (tree %s)\n' % (','.join(need), time.time() - t0, key))
            _prune(key)
        return {c: os.path.join(d, c + '.json') for c in configs}, key
    finally:
        fcntl.flock(lock, fcntl.LOCK_UN)
        lock.close()
        try:
            os.remove(os.path.join(CACHE, key + '.lock'))
        except OSError:
            pass


def _prune(keep, limit=int(os.environ.get('QLINT_CACHE_LIMIT', '8'))):
    """Keep the cache small: drop the oldest fact directories beyond `limit`."""
    ds = []
    for n in os.listdir(CACHE):
        p = os.path.join(CACHE, n)
        if os.path.isdir(p) and n != keep and len(n) == 24:
            ds.append((os.path.getmtime(p), p))
    ds.sort(reverse=True)
    now = time.time()
    for mt, p in ds[limit:]:
        if now - mt < 1800:
            continue      # possibly being read by a concurrent run (the self-test runners analyse many trees in parallel)
        shutil.rmtree(p, ignore_errors=True)


if __name__ == '__main__':
    paths, key = extract(repo=sys.argv[1] if len(sys.argv) > 1 else None)
    print(key)
    for c, p in paths.items():
        print(c, p, os.path.getsize(p))
