"""R-O: no overflow-capable arithmetic on an unvalidated integer argument of a safe exported method.
R-W: symbols keep their width (no narrowing before the level shift / validation / reconstruction).
"""
from .core import *
from .report import Inst

INT = ('usize', 'u64', 'u32', 'u16', 'u8', 'u128', 'isize', 'i64', 'i32', 'i16', 'i8', 'i128')

PUBLIC_BASES = {
    'quadwt::QWaveletTree': ['C01', 'C04'], 'quadwt::huffqwt::HuffQWaveletTree': ['C02', 'C04'],
    'binwt::WaveletTree': ['C03', 'C04'], 'qvector::QVector': ['C13', 'C04'],
    'qvector::rs_qvector::RSQVector': ['C05', 'C04'], 'bitvector::BitVector': ['C08', 'C04'],
    'bitvector::BitVectorMut': ['C08', 'C04'], 'bitvector::rs_narrow::RSNarrow': ['C06', 'C04'],
    'bitvector::rs_wide::RSWide': ['C06', 'C04'], 'darray::DArray': ['C07', 'C04'],
    'qvector::QVectorBuilder': ['C13', 'C04'],
}

# exempt entry points, each with the reason (confirmed by reading)
EXEMPT = {
    'set': 'documented-panic mutator: later accesses are bounds-checked, wrap-around ends in the documented panic',
    'set_bits': 'documented-panic mutator',
    'append_bits': 'documented-panic mutator',
    'push': 'mutator; length growth is bounded by allocation',
    'extend_with_zeros': 'mutator; length growth is bounded by allocation (capacity overflow = allocation-failure class)',
    'with_capacity': 'capacity constructor: overflow is the allocation-failure class',
    'get_word': 'documented panic: out-of-range word index',
    'prefetch_info': 'position only feeds a prefetch hint (R-PF)',
    'prefetch_data': 'position only feeds a prefetch hint (R-PF)',
}


# a capacity hint may be absurdly large (allocation-failure class) but 0 is an ordinary value: only overflow is exempt there
ABOVE_ONLY_EXEMPT = ('with_capacity',)


def operand_locals(o):
    if 'p' in o:
        yield o['p']['l']
        for e in o['p']['proj']:
            if isinstance(e, dict) and 'idx' in e:
                yield e['idx']


def rv_locals(rv):
    for k in ('a', 'b'):
        if k in rv and isinstance(rv[k], dict):
            for x in operand_locals(rv[k]):
                yield x
    for o in rv.get('ops', []):
        for x in operand_locals(o):
            yield x
    if 'p' in rv:
        yield rv['p']['l']


def taint(F, seeds):
    """Flow-insensitive taint over locals: copies, casts and unbounded arithmetic propagate; masks,
    divisions / right shifts by constants, remainders and comparisons do not (their result is bounded
    or boolean)."""
    T = set(seeds)
    changed = True
    F.dom()
    while changed:
        changed = False
        for bi, b in enumerate(F.blocks):
            if bi not in F.reach:
                continue
            for s in b['s']:
                if 'lhs' not in s:
                    continue
                l = s['lhs']['l']
                pr = s['lhs']['proj']
                if pr and not (len(pr) == 1 and isinstance(pr[0], dict) and 'f' in pr[0]):
                    continue
                rv = s['rv']
                if rv['k'] in ('use', 'cast'):
                    src = list(rv_locals(rv))
                elif rv['k'] == 'bin':
                    op = rv['op'].replace('WithOverflow', '')
                    if op in ('BitAnd', 'Rem', 'Div', 'Lt', 'Le', 'Gt', 'Ge', 'Eq', 'Ne'):
                        continue
                    if op == 'Shr' and 'c' in rv['b']:
                        continue
                    src = list(rv_locals(rv))
                elif rv['k'] == 'agg' and rv['kind'].get('tuple') or (rv['k'] == 'agg' and 'adt' in rv['kind'] and 'Range' in rv['kind']['adt']):
                    src = list(rv_locals(rv))
                else:
                    continue
                if l not in T and any(x in T for x in src):
                    T.add(l)
                    changed = True
            # values that flow through Option / iterator plumbing of a tainted range stay tainted
            t = b['t']
            if t['k'] == 'call' and 'fn' in t['f'] and not t['dest']['proj']:
                fn = t['f']['fn']
                if fn['name'] in ('into_iter', 'next', 'rev', 'min', 'max', 'clone') and not fn['local']:
                    if any(x in T for a in t['args'] for x in operand_locals(a)) and t['dest']['l'] not in T:
                        T.add(t['dest']['l'])
                        changed = True
    return T


def bounded_above(atoms, P):
    for op, a, b in [x for x in atoms if x[0] in ('<', '<=')]:
        if contains(a, P) and not contains(b, P):
            return True
    return False


def bounded_below(atoms, P):
    for op, a, b in atoms:
        if op in ('<', '<=') and contains(b, P) and not contains(a, P):
            return True
        if op == '!=' and ((a == ('const', 0) and b == P) or (b == ('const', 0) and a == P)):
            return True
    return False


def rule_O(FA):
    out = []
    for f in FA.lib_fns(include_closures=False):
        base = f.get('_base', '')
        if base not in PUBLIC_BASES or not f['exported']:
            continue
        # unchecked twins are entry points too: their documented precondition bounds the arguments from
        # above (index / prefix / occurrence), never from below, so only `argument - k` is judged there
        unchecked_entry = f['unsafe']
        if unchecked_entry and not f['name'].endswith('_unchecked'):
            continue
        props = PUBLIC_BASES[base] + (['C10'] if unchecked_entry else [])
        first = 1 if (f['argc'] >= 1 and f['locals'][1] in INT) else 2     # associated functions have no receiver
        seeds = [i for i in range(first, f['argc'] + 1) if f['locals'][i] in INT]
        if not seeds:
            continue
        above_exempt = f['name'] in ABOVE_ONLY_EXEMPT
        if f['name'] in EXEMPT and not above_exempt:
            out.append(Inst('R-O', 'R-O|%s' % fn_key(f), 'note', f['span'], 'exempt: ' + EXEMPT[f['name']], props, nontrivial=False))
            continue
        for spec in FA.specs(f):
            sites = []
            bad = []

            def scan(g, gspec, seed_locals, pname, sanitized_up, sanitized_low, chain, depth, seen):
                key = (g['path'], tuple(sorted(seed_locals)), sanitized_up, sanitized_low)
                if key in seen or depth > 3:
                    return
                seen.add(key)
                G = FA.fn(g, gspec)
                T = taint(G, seed_locals)
                Pterms = [('param', G.names.get(l, '_%d' % l)) for l in seed_locals]
                for bi, b in enumerate(G.blocks):
                    if bi not in G.reach:
                        continue
                    for s in b['s']:
                        rv = s.get('rv')
                        if not rv or rv['k'] != 'bin':
                            continue
                        op = rv['op']
                        if op not in ('AddWithOverflow', 'MulWithOverflow', 'SubWithOverflow', 'Shl', 'ShlUnchecked'):
                            continue
                        if any(m.startswith('debug_assert') for m in s.get('macros', [])):
                            continue
                        la = [x for x in operand_locals(rv['a']) if x in T]
                        lb = [x for x in operand_locals(rv['b']) if x in T]
                        if not la and not lb:
                            continue
                        need = None
                        if op in ('AddWithOverflow', 'MulWithOverflow'):
                            need = 'above'
                        elif op == 'SubWithOverflow':
                            # p - k underflows for small p; x - p underflows for large p
                            if la and 'c' in rv['b']:
                                # only the argument itself (not a value derived from it, e.g. `(1 << len) - 1`)
                                if strip_casts(norm(G.operand_term(rv['a']))) not in Pterms:
                                    continue
                                need = 'below'
                            elif lb and not la:
                                need = 'above'
                            else:
                                continue
                        elif op.startswith('Shl'):
                            if not lb:
                                continue
                            need = 'above'
                        if (unchecked_entry or above_exempt) and need == 'above':
                            continue
                        atoms = path_atoms(G, bi)
                        ok = (sanitized_up and need == 'above') or any((bounded_above if need == 'above' else bounded_below)(atoms, P) for P in Pterms)
                        if need == 'below' and sanitized_up and not ok:
                            ok = sanitized_low
                        desc = '%s %s %s' % (show(norm(G.operand_term(rv['a'])))[:40], op.replace('WithOverflow', ''), show(norm(G.operand_term(rv['b'])))[:40])
                        sites.append(desc)
                        if not ok:
                            bad.append((s['line'], desc, ' -> '.join(chain), need))
                for bi, t in G.calls():
                    fn = t['f']['fn']
                    targs = []
                    for ai, a in enumerate(t['args']):
                        if any(x in T for x in operand_locals(a)):
                            targs.append(ai)
                    if not targs:
                        continue
                    atoms = path_atoms(G, bi)
                    san = sanitized_up or any(bounded_above(atoms, P) for P in Pterms)
                    sanl = sanitized_low or any(bounded_below(atoms, P) for P in Pterms)
                    for cal in FA.resolve(fn):
                        if cal['kind'] == 'Closure' or cal['name'] in EXEMPT:
                            continue
                        # a checked public method of another structure validates for itself
                        if cal['exported'] and not cal['unsafe'] and cal.get('_base') in PUBLIC_BASES and cal.get('_base') != base:
                            continue
                        cseeds = [ai + 1 for ai in targs if ai + 1 <= cal['argc'] and cal['locals'][ai + 1] in INT]
                        if not cseeds:
                            continue
                        cspec = {k: v for k, v in spec.items() if k in FA.const_params(cal)}
                        # an argument of the form `x + c` (c >= 1) cannot be below c in the callee
                        low2 = sanl
                        for ai in targs:
                            at = norm(G.operand_term(t['args'][ai]))
                            if at[0] == 'bin' and at[1] == 'Add' and (at[2][0] == 'const' and at[2][1] >= 1 or at[3][0] == 'const' and at[3][1] >= 1):
                                low2 = True
                        scan(cal, cspec, cseeds, pname, san, low2, chain + [cal['name']], depth + 1, seen)

            for l in seeds:
                pname = f['names'].get(str(l), '_%d' % l)
                scan(f, spec, [l], pname, False, False, [f['name']], 0, set())
            key = 'R-O|%s%s' % (fn_key(f), spec_key(spec))
            if bad:
                seen_desc = set()
                for line, desc, chain, need in bad:
                    if desc in seen_desc:
                        continue
                    seen_desc.add(desc)
                    out.append(Inst('R-O', '%s|%s' % (key, desc), 'violation', line,
                                    'overflow-capable `%s` on an argument with no dominating bound from %s (chain %s): '
                                    'panics with overflow checks, wraps to a wrong value without' % (desc, need, chain), props,
                                    sample={'operation': desc, 'chain': chain}))
            else:
                out.append(Inst('R-O', key, 'ok', f['span'], '%d argument-tainted overflow-capable operations, all bounded' % len(sites),
                                props, nontrivial=bool(sites), sample={'operations': sorted(set(sites))[:6]}))
    return out


# ---------------------------------------------------------------- R-W

TREE_BASES = {'quadwt::QWaveletTree': ['C01', 'C19', 'C04'], 'quadwt::huffqwt::HuffQWaveletTree': ['C02', 'C19', 'C04'],
              'binwt::WaveletTree': ['C03', 'C19', 'C04']}
FIXED = ('u8', 'u16', 'u32', 'u64', 'usize', 'i8', 'i16', 'i32', 'i64', 'isize')


def type_params(f):
    return {g['name'] for g in f.get('generics', []) if g['kind'] == 'type'}


def _is_shift(t):
    return isinstance(t, tuple) and t and t[0] == 'bin' and t[1] in ('Shr', 'Shl')


def _bare(t):
    """A raw parameter / sequence element: no shift, mask or arithmetic applied yet."""
    t = strip_ref(t)
    if not isinstance(t, tuple) or not t:
        return False
    if t[0] == 'param':
        return True
    if t[0] in ('variant', 'field', 'index'):
        return _bare(t[1]) or t[0] == 'variant'
    if t[0] == 'call' and t[1].split('::')[-1] in ('next', 'deref', 'clone', 'unwrap') or (t[0] == 'unknown'):
        return True
    return False


INT_W = {'u8': 8, 'u16': 16, 'u32': 32, 'u64': 64, 'usize': 64, 'u128': 128, 'i8': 8, 'i16': 16, 'i32': 32, 'i64': 64, 'isize': 64, 'i128': 128}

MODULE_PROPS = [('qvector::rs_qvector', ['C05', 'C01', 'C04']), ('bitvector::rs_narrow', ['C06']), ('bitvector::rs_wide', ['C06', 'C03']),
                ('darray', ['C07']), ('bitvector', ['C08']), ('quadwt::huffqwt', ['C02']), ('quadwt', ['C01']), ('binwt', ['C03']),
                ('qvector', ['C13', 'C05']), ('utils', ['C17'])]


def props_of_module(path, default=('C04',)):
    out = next((list(p) for pre, p in MODULE_PROPS if path.startswith(pre)), list(default))
    if 'Iterator::' in path or 'IntoIterator::' in path:
        out = out + ['C12']    # iterator implementations also belong to the iterator property
    return out


def _w5_narrow_then_shift(FA, out):
    """w5 (all functions): a stored word narrowed by `as` and THEN shifted right by a computed amount loses the bits it was
    supposed to bring down (`(code as u8 >> shift) & 3` instead of `((code >> shift) & 3) as u8`)."""
    n = 0
    for f in FA.lib_fns():
        F = FA.fn(f)
        F.dom()
        for bi, b in enumerate(F.blocks):
            if bi not in F.reach:
                continue
            for s in b['s']:
                rv = s['rv']
                if rv['k'] != 'bin' or rv['op'].replace('Unchecked', '') != 'Shr' or 'p' not in rv['a'] or rv['a']['p']['proj']:
                    continue
                n += 1
                ds = [d for d in F.defs.get(rv['a']['p']['l'], []) if d[0] in F.reach]
                if len(ds) != 1 or ds[0][1] != 'assign' or ds[0][2]['k'] != 'cast':
                    continue
                c = ds[0][2]
                wt, wf = INT_W.get(c['to'], 0), INT_W.get(c['from'], 0)
                if not wt or not wf or wt >= wf:
                    continue
                amt = strip_casts(norm(F.operand_term(rv['b'])))
                if amt[0] == 'const' and amt[1] < wt:
                    src = norm(F.operand_term(c['a']))
                    if not (src[0] == 'bin' and src[1] in ('Shr', 'BitAnd')):
                        pass
                    continue
                pf = FA.closure_parent(f)
                out.append(Inst('R-W', 'R-W|w5|%s' % fn_key(pf), 'violation', s['line'],
                                '`%s` is narrowed from %s to %s and then shifted right by `%s`: every bit above bit %d is gone before the shift brings it down (debug: shift overflow; release: wrong digit)' % (
                                    show(norm(F.operand_term(c['a'])))[:60], c['from'], c['to'], show(amt)[:40], wt - 1),
                                props_of_module(fn_key(pf)) + ['C10'], sample={'from': c['from'], 'to': c['to'], 'amount': show(amt)}))
    return n


def _w6_plus_one_in_T(FA, out):
    """w6: `x + T::one()` computed in the generic element type of a tree: the largest value of the type is a legal symbol,
    for it the addition overflows (panic in debug, 0 in release) -- `(sigma + T::one()).as_()` for `sigma.as_() + 1`."""
    for f in FA.lib_fns():
        pf = FA.closure_parent(f)
        base = pf.get('_base', '')
        if base not in TREE_BASES or not type_params(pf):
            continue
        tps = set(type_params(pf))
        F = FA.fn(f)
        F.dom()
        for bi, t in F.calls():
            fn = t['f']['fn']
            if fn['name'] != 'add' or 'Add' not in fn.get('trait', '') or fn.get('self_ty') not in tps or len(t['args']) != 2:
                continue
            a, b = norm(F.operand_term(t['args'][0])), norm(F.operand_term(t['args'][1]))
            is_one = lambda x: isinstance(x, tuple) and x[:1] == ('call',) and x[1].split('::')[-1] == 'one'
            if not (is_one(a) or is_one(b)):
                continue
            other = b if is_one(a) else a
            guarded = any(at[0] in ('<', '!=') and isinstance(at[2], tuple) and (contains(at[1], other) or contains(at[2], other)) and
                          any(isinstance(st, tuple) and st[:1] == ('call',) and st[1].split('::')[-1] in ('max_value', 'MAX') for st in list(subterms(at[1])) + list(subterms(at[2])))
                          for at in path_atoms(F, bi))
            key = 'R-W|w6|%s' % fn_key(pf)
            props = list(TREE_BASES.get(base, [])) + ['C19']
            if guarded:
                out.append(Inst('R-W', key, 'ok', t.get('line', ''), '`%s + one()` under a test against the maximum of the type' % show(other)[:40], props))
            else:
                out.append(Inst('R-W', key, 'violation', t.get('line', ''),
                                '`%s + T::one()` is computed in the element type %s: for a sequence that contains the largest value of the type it overflows (the same numbers in a wider type build fine)' % (show(other)[:50], fn.get('self_ty')), props))


def rule_W(FA):
    out = []
    seen = set()
    n_scanned = 0
    n_shr = _w5_narrow_then_shift(FA, out)
    _w6_plus_one_in_T(FA, out)
    for f in FA.lib_fns():
        base = f.get('_base', '')
        tps = type_params(f)
        if not tps:
            continue
        in_tree = base in TREE_BASES
        in_part = f['name'].startswith('stable_partition') and f['path'].startswith('utils::')
        if not (in_tree or in_part):
            continue
        props = list(TREE_BASES.get(base, [])) + (['C17', 'C01', 'C03', 'C19'] if in_part else [])
        for spec in FA.specs(f):
            F = FA.fn(f, spec)
            F.dom()
            n_scanned += 1
            for bi, b in enumerate(F.blocks):
                if bi not in F.reach:
                    continue
                for s in b['s']:
                    rv = s.get('rv')
                    if not rv:
                        continue
                    if rv['k'] == 'bin' and rv['op'].replace('Unchecked', '') in ('Shr', 'Shl'):
                        val = norm(F.operand_term(rv['a']))
                        amt = norm(F.operand_term(rv['b']))
                        tt = val
                        while isinstance(tt, tuple) and tt and tt[0] == 'cast':
                            tt = tt[2]
                        if isinstance(tt, tuple) and tt and tt[0] == 'as_' and len(tt) > 3 and tt[3] in tps and amt[0] != 'const' \
                                and not _is_shift(strip_ref(tt[2])):
                            key = 'R-W|w1|%s' % fn_key(f)
                            if key not in seen:
                                seen.add(key)
                                out.append(Inst('R-W', key, 'violation', s['line'],
                                                'element of generic type %s is narrowed to %s before the level shift `%s >> %s`: bits above the '
                                                'narrow width are lost (wrong level bits for wide element types)' % (tt[3], tt[1], show(val)[:50], show(amt)[:30]),
                                                props, sample={'shifted': show(val), 'amount': show(amt)}))
                    if rv['k'] == 'cast' and rv['to'] in ('u8', 'u16', 'u32', 'u64') and in_tree:
                        val = norm(F.operand_term(rv['a']))
                        if isinstance(val, tuple) and val and val[0] == 'as_' and len(val) > 3 and val[3] in tps and _bare(val[2]):
                            key = 'R-W|w2|%s%s' % (fn_key(f), spec_key(spec))
                            if key not in seen:
                                seen.add(key)
                                out.append(Inst('R-W', key, 'violation', s['line'],
                                                'symbol of generic type %s is carried in %s (`%s as %s`) while the number of levels derives from the '
                                                'full width of %s' % (val[3], rv['to'], show(val), rv['to'], val[3]), props,
                                                sample={'narrowed': show(val), 'to': rv['to']}))
                t = b['t']
                if t['k'] == 'call' and 'fn' in t['f'] and in_tree:
                    fn = t['f']['fn']
                    if fn['name'] == 'from' and fn['trait'].endswith('NumCast') and len(fn['gargs']) == 2 \
                            and fn['gargs'][0] in tps and fn['gargs'][1] in FIXED:
                        arg = norm(F.operand_term(t['args'][0]))
                        if arg[0] != 'const':
                            key = 'R-W|w3|%s%s' % (fn_key(f), spec_key(spec))
                            if key not in seen:
                                seen.add(key)
                                out.append(Inst('R-W', key, 'violation', t['line'],
                                                'result of generic type %s is rebuilt from a fixed-width %s accumulator: symbols wider than %s cannot be returned' % (
                                                    fn['gargs'][0], fn['gargs'][1], fn['gargs'][1]), props,
                                                sample={'from': fn['gargs'][1], 'value': show(arg)[:80]}))
                # w3 (second form): `(acc << 2 | digit).as_()` -- the whole symbol assembled in a machine word and converted to T at the end
                if t['k'] == 'call' and 'fn' in t['f'] and in_tree:
                    fn = t['f']['fn']
                    ga = fn.get('gargs', [])
                    if fn['name'] == 'as_' and fn['trait'].endswith('AsPrimitive') and len(ga) == 2 and ga[1] in tps and ga[0] in FIXED and t['args']:
                        arg = norm(F.operand_term(t['args'][0]))

                        def mir_width(o, depth=0):
                            """bits of the operand judged by the MIR types it was widened from (`digit as usize` is 8 bits wide)"""
                            if 'p' not in o or o['p']['proj'] or depth > 6:
                                return INT_W.get(F.locals[o['p']['l']], 64) if 'p' in o and not o['p']['proj'] else 64
                            l = o['p']['l']
                            ds = [d for d in F.defs.get(l, []) if d[0] in F.reach]
                            if len(ds) != 1:
                                return INT_W.get(F.locals[l], 64)
                            if ds[0][1] == 'call':
                                return INT_W.get(F.locals[l], 64) if F.locals[l] != 'bool' else 1
                            rv = ds[0][2]
                            if rv['k'] == 'cast':
                                return min(INT_W.get(rv['from'], 1 if rv['from'] == 'bool' else 64), mir_width(rv['a'], depth + 1))
                            if rv['k'] == 'use':
                                return mir_width(rv['a'], depth + 1)
                            return INT_W.get(F.locals[l], 64)
                        core_arg = strip_casts(arg)
                        assembled = core_arg[:1] == ('bin',) and core_arg[1] in ('BitOr', 'Shl', 'Add') and any(
                            isinstance(x, tuple) and x[:2] == ('bin', 'Shl') for x in subterms(core_arg))
                        if mir_width(t['args'][0]) > 16 and has_unknown(arg) and assembled:
                            key = 'R-W|w3|%s%s' % (fn_key(f), spec_key(spec))
                            if key not in seen:
                                seen.add(key)
                                out.append(Inst('R-W', key, 'violation', t['line'],
                                                'result of generic type %s is converted from a %s accumulator (`%s`): symbols wider than %s cannot be returned' % (
                                                    ga[1], ga[0], show(arg)[:60], ga[0]), props,
                                                sample={'from': ga[0], 'value': show(arg)[:80]}))
                # w4: a fixed-size array indexed by the level counter must have room for every level of the widest element type
                if t['k'] == 'assert' and 'bounds' in t.get('msg', {}) and in_tree:
                    ln = t['msg']['len']
                    ix = t['msg']['index']
                    if 'c' in ln and ln.get('val') is not None and 'p' in ix:
                        L = int(ln['val'])
                        it = norm(F.operand_term(ix))
                        levelish = any(isinstance(x, tuple) and x and ((x[0] == 'agg' and x[1].startswith('adt:std::ops::Range')) or x[0] == 'unknown') for x in subterms(it))
                        masked = it[0] == 'bin' and it[1] == 'BitAnd'
                        need = 128 if base == 'binwt::WaveletTree' else 64
                        if levelish and not masked and L < need and it[0] != 'const':
                            key = 'R-W|w4|%s%s' % (fn_key(f), spec_key(spec))
                            if key not in seen:
                                seen.add(key)
                                out.append(Inst('R-W', key, 'violation', t['line'],
                                                'fixed-size array of %d entries is indexed by a per-level counter `%s`: a tree over a %d-bit element type has up to %d levels' % (
                                                    L, show(it)[:50], 128, need), props, sample={'array_len': L, 'index': show(it)[:80]}))
            if f['kind'] != 'Closure':
                key0 = 'R-W|scan|%s%s' % (fn_key(f), spec_key(spec))
                if not any(k.endswith('|%s%s' % (fn_key(f), spec_key(spec))) or k.endswith('|' + fn_key(f)) for k in seen):
                    out.append(Inst('R-W', key0, 'ok', f['span'], 'no narrowing before shift / symbol carried in element type', props,
                                    nontrivial=_has_generic_shift(F, tps)))
    # w2i: the Huffman validity test must not index the code table with a truncating conversion
    from . import r_guard
    for (base, name), contract in sorted(r_guard.API.items()):
        for pos, ecls in contract.items():
            cands = r_guard.find_method(FA, base, name)
            if not cands:
                continue
            f = cands[0]
            specs = list(FA.specs(f))
            if isinstance(ecls, dict):
                cname = next(iter(ecls))
                if all(cname not in s for s in specs):
                    specs = [dict(s, **{cname: v}) for s in specs for v in (False, True)]
            for spec in specs:
                if r_guard.class_for(ecls, spec) != 'coded':
                    continue
                P = r_guard.param_term(f, pos)
                tps = type_params(f)
                props = TREE_BASES.get(base, ['C02'])
                verdict = None
                for sk, atoms, val, where, g in r_guard.conditions_for_entry(FA, f, spec):
                    for op, a, b in [x for x in atoms if x[0] == '<']:
                        if contains(a, P) and r_guard._len_arg(b) is not None:
                            idx = a
                            while isinstance(idx, tuple) and idx and idx[0] == 'cast':
                                idx = idx[2]
                            if idx[0] == 'as_' and len(idx) > 3 and idx[3] in tps:
                                verdict = ('violation', where, 'table index is the truncating conversion `%s`: a symbol >= 2^64 of a wider '
                                           'element type aliases a coded symbol' % show(idx))
                            elif verdict is None:
                                verdict = ('ok', where, 'table index `%s` is a checked conversion' % show(idx))
                if verdict is not None:
                    out.append(Inst('R-W', 'R-W|w2i|%s::%s%s' % (base, name, spec_key(spec)), verdict[0], verdict[1], verdict[2], props))
    return out


def _has_generic_shift(F, tps):
    for b in F.blocks:
        t = b['t']
        if t['k'] == 'call' and 'fn' in t['f'] and t['f']['fn']['trait'] in ('std::ops::Shr', 'std::ops::Shl'):
            return True
    return False


# ---------------------------------------------------------------- R-BITS

BITS_FAMILY = {
    'quadwt::QWaveletTree': (3, 2, ['C01']),
    'quadwt::huffqwt::HuffQWaveletTree': (3, 2, ['C02']),
    'binwt::WaveletTree': (1, 1, ['C03']),
}


def rule_BITS(FA):
    """Every function of a tree that extracts the level fragment of a symbol / code (`(x >> shift) & m`) uses
    the family's fragment mask (3 for quad trees, 1 for binary), moves a loop-carried shift by the fragment
    width, and `get_unchecked` rebuilds the symbol by shifting the accumulator by the same width.  Builder,
    rank, rank_prefetch (both phases), select and get are siblings over one level layout: a function that
    deviates reads other bits than the builder wrote."""
    out = []
    for f in FA.lib_fns(include_closures=False):
        base = f.get('_base')
        if base not in BITS_FAMILY:
            continue
        mask, width, props = BITS_FAMILY[base]
        props = list(props) + (['C09'] if 'prefetch' in f['name'] else [])
        for spec in FA.specs(f):
            F = FA.fn(f, spec)
            F.dom()
            masks = set()
            amt_locals = set()
            line = f['span']
            for bi, b in enumerate(F.blocks):
                if bi not in F.reach:
                    continue
                for s in b['s']:
                    rv = s.get('rv')
                    if not rv or rv['k'] != 'bin':
                        continue
                    op = rv['op'].replace('WithOverflow', '')
                    if op == 'BitAnd':
                        a = norm(F.operand_term(rv['a']))
                        c = norm(F.operand_term(rv['b']))
                        if a[0] == 'const':
                            a, c = c, a
                        x = a
                        while isinstance(x, tuple) and x and x[0] in ('cast', 'as_'):
                            x = x[2]
                        if c[0] == 'const' and isinstance(x, tuple) and x and x[0] == 'bin' and x[1] == 'Shr' and x[3][0] != 'const':
                            masks.add(c[1])
                            line = s['line']
                            for st in subterms(x[3]):
                                if isinstance(st, tuple) and st and st[0] == 'unknown':
                                    amt_locals.add(st[1])
            steps = set()
            for l, ds in F.defs.items():
                nm = F.names.get(l)
                if nm is None or nm not in amt_locals:
                    continue
                for d in ds:
                    if d[0] in F.reach and d[1] == 'assign':
                        t = norm(F.rvalue_term(d[2]))
                        if t[0] == 'bin' and t[1] in ('Add', 'Sub'):
                            for x in (t[2], t[3]):
                                if x[0] == 'const':
                                    steps.add(x[1])
            acc = set()
            if f['name'] == 'get_unchecked':
                for bi, b in enumerate(F.blocks):
                    if bi not in F.reach:
                        continue
                    for s in b['s']:
                        rv = s.get('rv')
                        if rv and rv['k'] == 'bin' and rv['op'].replace('WithOverflow', '') == 'Shl' and 'c' in rv['b'] and rv['b'].get('val') is not None:
                            acc.add(int(rv['b']['val']))
                    t = b['t']
                    if t['k'] == 'call' and 'fn' in t['f'] and t['f']['fn']['trait'] == 'std::ops::Shl' and len(t['args']) == 2 and 'c' in t['args'][1] and t['args'][1].get('val') is not None:
                        acc.add(int(t['args'][1]['val']))
            if not masks and not acc:
                continue
            key = 'R-BITS|%s%s' % (fn_key(f), spec_key(spec))
            problems = []
            if masks and masks != {mask}:
                problems.append('level fragment mask is %s, the family uses %d' % (sorted(masks), mask))
            if steps and not steps <= {width}:
                problems.append('loop-carried shift moves by %s, the fragment width is %d' % (sorted(steps), width))
            if acc and not acc <= {width}:
                problems.append('accumulator is shifted by %s per level, the fragment width is %d' % (sorted(acc), width))
            if problems:
                out.append(Inst('R-BITS', key, 'violation', line, '; '.join(problems) + ': this function reads other bits than the builder wrote', props,
                                sample={'masks': sorted(masks), 'shift_steps': sorted(steps), 'accumulator_shifts': sorted(acc)}))
            else:
                out.append(Inst('R-BITS', key, 'ok', line, 'fragment mask %s, shift step %s, accumulator shift %s' % (sorted(masks), sorted(steps), sorted(acc)), props,
                                sample={'masks': sorted(masks), 'shift_steps': sorted(steps), 'accumulator_shifts': sorted(acc)}))
    out.extend(_bits_initial_shift(FA))
    return out


def _decast(t):
    if not isinstance(t, tuple) or not t:
        return t
    if t[0] in ('cast', 'as_') and len(t) == 3:
        return _decast(t[2])
    return tuple(_decast(x) for x in t)


def _eval_affine(t, env):
    """integer value of a term built from + - * << >> over opaque leaves (valued by env); None when another operator occurs"""
    if not isinstance(t, tuple) or not t:
        return None
    if t[0] == 'const':
        return t[1] if isinstance(t[1], int) else None
    if t[0] == 'bin' and t[1] in ('Add', 'Sub', 'Mul', 'Shl', 'Shr', 'Div'):
        a, b = _eval_affine(t[2], env), _eval_affine(t[3], env)
        if a is None or b is None:
            return None
        if t[1] in ('Shl', 'Shr') and not (0 <= b < 64):
            return None
        if t[1] == 'Div':
            return a // b if b > 0 and a >= 0 else None
        return {'Add': a + b, 'Sub': a - b, 'Mul': a * b, 'Shl': a << b if t[1] == 'Shl' else 0, 'Shr': a >> b if t[1] == 'Shr' else 0}[t[1]]
    return env.setdefault(t, 11 + 2 * len(env) + (sum(map(ord, repr(t))) % 5) * 8)


def _same_value(t1, t2):
    """True / False when both terms are arithmetic over the same opaque leaves and agree / disagree on sample valuations;
    None when that cannot be decided"""
    res = []
    for k in range(4):
        env = {}
        a = _eval_affine(t1, env)
        leaves1 = set(env)
        b = _eval_affine(t2, env)
        if a is None or b is None or set(env) != leaves1:
            return None
        # re-evaluate with shifted leaf values
        env2 = {x: v * (k + 2) + k for x, v in env.items()}
        res.append(_eval_affine(t1, dict(env2)) == _eval_affine(t2, dict(env2)))
    return all(res)


def _bits_initial_shift(FA):
    """The readers of one tree (rank, both prefetch phases, select) walk the same levels from the top: the loop-carried
    shift by which they extract the level fragment starts from the same value in each of them.  A reader whose starting
    shift differs from its siblings' reads the fragment of another level."""
    out = []
    per_base = collections.defaultdict(list)
    guard_of = {}
    for f in FA.lib_fns(include_closures=False):
        base = f.get('_base')
        if base not in BITS_FAMILY or f['name'] == 'new' or not (f['name'].startswith('rank') or f['name'].startswith('select') or f['name'].startswith('get')):
            continue
        spec = next(iter(FA.specs(f)), {})
        F = FA.fn(f, spec)
        F.dom()
        amt = set()
        for bi, b in enumerate(F.blocks):
            if bi not in F.reach:
                continue
            cands = []
            for s_ in b['s']:
                rv = s_.get('rv')
                if rv and rv['k'] == 'bin' and rv['op'].replace('WithOverflow', '').replace('Unchecked', '') == 'Shr':
                    cands.append(rv['b'])
            t = b['t']
            if t['k'] == 'call' and 'fn' in t['f'] and t['f']['fn']['name'] == 'shr' and len(t['args']) == 2:
                cands.append(t['args'][1])
            for o in cands:
                for st in subterms(norm(F.operand_term(o))):
                    if isinstance(st, tuple) and st[:1] == ('unknown',):
                        amt.add(st[1])
        inits = set()
        line = f['span']
        for l, ds in F.defs.items():
            nm = F.names.get(l)
            if nm is None or nm not in amt:
                continue
            for d in ds:
                if d[0] in F.reach and d[1] == 'assign':
                    t = _decast(norm(F.rvalue_term(d[2])))
                    if t[:1] == ('const',) or has_unknown(t):
                        continue
                    inits.add(norm(t))
        # is the loop-carried shift itself tested (`while shift >= 2`)?  Readers of a Huffman-shaped tree stop when the
        # code of the symbol is used up, not after a fixed number of levels
        tested = False
        use_blocks = set()
        for bi, b in enumerate(F.blocks):
            if bi not in F.reach:
                continue
            ops = [s_['rv']['b'] for s_ in b['s'] if s_.get('rv') and s_['rv']['k'] == 'bin' and s_['rv']['op'].replace('WithOverflow', '').replace('Unchecked', '') == 'Shr']
            if b['t']['k'] == 'call' and 'fn' in b['t']['f'] and b['t']['f']['fn']['name'] == 'shr' and len(b['t']['args']) == 2:
                ops.append(b['t']['args'][1])
            if any(isinstance(st, tuple) and st[:1] == ('unknown',) and st[1] in amt for o in ops for st in subterms(norm(F.operand_term(o)))):
                use_blocks.add(bi)

        def reach_from(x):
            seen, st = set(), [x]
            while st:
                y = st.pop()
                if y in seen:
                    continue
                seen.add(y)
                st.extend(F.succ.get(y, []))
            return seen
        dom = F.dom()
        for bi, b in enumerate(F.blocks):
            if bi not in F.reach or b['t']['k'] != 'switch':
                continue
            cmp_on_shift = False
            for s_ in b['s']:
                rv = s_.get('rv')
                if rv and rv['k'] == 'bin' and rv['op'] in ('Lt', 'Le', 'Gt', 'Ge') and not any(m.startswith('debug_assert') for m in s_.get('macros', [])):
                    for o in (rv['a'], rv['b']):
                        if any(isinstance(st, tuple) and st[:1] == ('unknown',) and st[1] in amt for st in subterms(norm(F.operand_term(o)))):
                            cmp_on_shift = True
            if not cmp_on_shift:
                continue
            # a LOOP guard: it dominates a use of the shift that can come back to it, and one of its arms leaves that cycle
            for u in use_blocks:
                if bi in dom[u] and bi in reach_from(u):
                    if any(u not in reach_from(sx) for sx in F.succ.get(bi, [])):
                        tested = True
        # a loop over a range whose end is computed from the code's own length stops with the code as well
        if not tested:
            for bi, b in enumerate(F.blocks):
                if bi not in F.reach:
                    continue
                for s_ in b['s']:
                    rv = s_.get('rv')
                    if rv and rv['k'] == 'agg' and str(rv['kind'].get('adt', '')).startswith('std::ops::Range') and rv['ops']:
                        end = norm(F.operand_term(rv['ops'][-1]))
                        if any(isinstance(st, tuple) and st[:1] == ('field',) and st[2] == 'len' and isinstance(st[1], tuple) and st[1] != ('param', 'self') for st in subterms(end)):
                            tested = True
        if inits:
            per_base[base].append((f, inits))
            guard_of[fn_key(f)] = tested
    for base, lst in sorted(per_base.items()):
        if len(lst) >= 3:
            g = [guard_of.get(fn_key(f), False) for f, _ in lst]
            if sum(g) == len(lst) - 1:
                f = lst[g.index(False)][0]
                out.append(Inst('R-BITS', 'R-BITS|%s|loop guard' % fn_key(f), 'violation', f['span'],
                                'the other readers of %s stop their descent on a test of the loop-carried shift (the code of the symbol is used up); `%s` never tests it: for a code shorter than its loop bound it keeps descending with a negative / wrapped shift' % (
                                    base.split('::')[-1], f['name']), list(BITS_FAMILY[base][2]) + (['C09'] if 'prefetch' in f['name'] else [])))
            elif all(g):
                out.append(Inst('R-BITS', 'R-BITS|%s|loop guard' % base, 'ok', lst[0][0]['span'], 'all %d readers test the loop-carried shift' % len(lst), list(BITS_FAMILY[base][2]) + ['C09']))
    for base, lst in sorted(per_base.items()):
        if len(lst) < 3:
            continue
        cnt = collections.Counter(t for _, ins in lst for t in ins)
        ref, n = cnt.most_common(1)[0]
        if n < len(lst) - 1 or n < 2:
            continue    # no clear majority: nothing to contradict
        props = list(BITS_FAMILY[base][2])
        for f, ins in lst:
            key = 'R-BITS|%s|initial shift' % fn_key(f)
            p2 = props + (['C09'] if 'prefetch' in f['name'] else [])
            same = [(_same_value(x, ref)) for x in ins]
            if ref in ins or any(x is True for x in same):
                out.append(Inst('R-BITS', key, 'ok', f['span'], 'starts at `%s` like its siblings' % show(ref)[:60], p2))
            elif not all(x is False for x in same):
                out.append(Inst('R-BITS', key, 'note', f['span'], 'starting shift `%s` is not comparable with the siblings\' `%s`: not decided' % ('; '.join(show(x)[:50] for x in ins), show(ref)[:50]), p2, nontrivial=False))
            else:
                out.append(Inst('R-BITS', key, 'violation', f['span'],
                                'the level shift starts at `%s` but the other readers of %s start at `%s`: this function extracts the fragments of other levels than they do' % (
                                    '; '.join(show(x)[:60] for x in ins), base.split('::')[-1], show(ref)[:60]), p2))
    return out
