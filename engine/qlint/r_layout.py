"""R-LAY (layouts, packed-counter agreement, constant relations, computed space overheads) and
R-TAB (the in-byte select table, checked exhaustively against its definition)."""
import collections
import re

from .core import *
from .report import Inst


def _const(FA, suffix):
    for k, v in FA.consts.items():
        if k == suffix or k.endswith('::' + suffix) or strip_generics(k) == suffix or strip_generics(k).endswith('::' + suffix):
            if isinstance(v['val'], str):
                return int(v['val'])
    return None


def shift_profile(FA, f):
    """Constants of the shift / mask arithmetic of one function: absolute shift amounts, per-field steps
    (constant multipliers inside a shift amount) and low-bit masks."""
    prof = {'abs_shl': set(), 'abs_shr': set(), 'step_shl': set(), 'step_shr': set(), 'masks': set()}
    for g in FA.with_closures(f):
      for spec in FA.specs(g):
        F = FA.fn(g, spec)
        F.dom()
        for bi, b in enumerate(F.blocks):
            if bi not in F.reach:
                continue
            for s in b['s']:
                rv = s.get('rv')
                if not rv or rv['k'] != 'bin':
                    continue
                if any(m.startswith('debug_assert') for m in s.get('macros', [])):
                    continue
                op = rv['op'].replace('Unchecked', '').replace('WithOverflow', '')
                if op in ('Shl', 'Shr'):
                    amt = norm(F.operand_term(rv['b']))
                    amt = strip_casts(amt)
                    if amt[0] == 'const':
                        prof['abs_' + op.lower()].add(amt[1])
                    else:
                        for st in subterms(amt):
                            if isinstance(st, tuple) and st and st[0] == 'bin' and st[1] == 'Mul':
                                for x in (st[2], st[3]):
                                    if x[0] == 'const':
                                        prof['step_' + op.lower()].add(x[1])
                            if isinstance(st, tuple) and st and st[0] == 'bin' and st[1] == 'Shl' and st[3][0] == 'const' and st is not amt:
                                prof['step_' + op.lower()].add(1 << st[3][1])
                        if amt[0] == 'bin' and amt[1] == 'Shl' and amt[3][0] == 'const':
                            prof['step_' + op.lower()].add(1 << amt[3][1])
                if op == 'BitAnd':
                    for o in (rv['a'], rv['b']):
                        ot = strip_casts(norm(F.operand_term(o)))
                        if isinstance(ot, tuple) and ot and ot[0] == 'const' and isinstance(ot[1], int):
                            v = ot[1]
                            if v > 3 and (v & (v + 1)) == 0:
                                prof['masks'].add(v)
    return prof


def _fn(FA, base, name):
    c = [f for f in FA.by_base_name.get((base, name), []) if not f['derived']]
    return c[0] if c else None


PACKED = [
    # the packed word lives in field `field` of `owner`; readers and writers are found by dataflow from / into that field
    {'name': 'RSNarrow block record', 'props': ['C06'], 'word': 64, 'fields': 7, 'max_count': 7 * 64, 'super_bits': 0,
     'owner': 'bitvector::rs_narrow::RSNarrow', 'field': 'block_rank_pairs'},
    {'name': 'RSWide superblock record', 'props': ['C06', 'C03'], 'word': 128, 'fields': 7, 'max_count': 7 * 512, 'super_bits': 44,
     'owner': 'bitvector::rs_wide::RSWide', 'field': 'superblock_metadata'},
    {'name': 'SuperblockPlain record', 'props': ['C05', 'C01', 'C02'], 'word': 128, 'fields': 7, 'max_count': 7 * 512, 'super_bits': 44,
     'owner': 'qvector::rs_qvector::rs_support_plain::SuperblockPlain', 'field': 'counters'},
]


def _shift_consts(F, rv, prof, which):
    """Record the constants of one shift: absolute amount, or the per-field multiplier inside a computed amount."""
    amt = strip_casts(norm(F.operand_term(rv['b'])))
    if amt[0] == 'const':
        if amt[1] != 0:   # a shift by a folded 0 (field #0 through a helper) moves nothing
            prof['abs_' + which].add(amt[1])
        return
    # the amount is affine in a field number: k * W, C - k * W, (k - 1) * W ...; only its top-level sum is inspected (a
    # multiplication buried under a mask, e.g. in the computation of k itself, is not a field width)
    work = [amt]
    while work:
        st = strip_casts(work.pop())
        if not (isinstance(st, tuple) and st and st[0] == 'bin'):
            continue
        if st[1] in ('Add', 'Sub'):
            work.extend([st[2], st[3]])
        elif st[1] == 'Mul':
            for x in (st[2], st[3]):
                if x[0] == 'const':
                    prof['step_' + which].add(x[1])
        elif st[1] == 'Shl' and st[3][0] == 'const':
            prof['step_' + which].add(1 << st[3][1])


def _mentions_field(f, field):
    _cache = f.setdefault('_mentions', {})
    k = field
    if k not in _cache:
        hit = False
        for b in f['blocks']:
            for s in b['s']:
                if place_has_field(s['lhs'], field) or any('p' in o and place_has_field(o['p'], field) for o in rv_operands(s['rv'])):
                    hit = True
            t = b['t']
            if t['k'] == 'call' and (place_has_field(t['dest'], field) or any('p' in a and place_has_field(a['p'], field) for a in t['args'])):
                hit = True
        _cache[k] = hit
    return _cache[k]


def record_profile(FA, owner, field):
    """Shift / mask constants applied to values read from `owner.field` (readers) and used to compute values stored into
    it (writers), over every library function with its private helpers inlined."""
    prof = {'abs_shl': set(), 'abs_shr': set(), 'step_shl': set(), 'step_shr': set(), 'masks': set(),
            'reader_fns': set(), 'writer_fns': set()}
    adt = FA.adts.get(owner) or {}
    fidx = None
    for i, fl in enumerate((adt.get('fields') or [])):
        if (fl.get('name') if isinstance(fl, dict) else fl) == field:
            fidx = i
    oshort = owner.split('::')[-1]

    def seed(F):
        def pred(p):
            if not place_has_field(p, field):
                return False
            ty = F.locals[p['l']]
            first = next((e for e in p['proj'] if e != '*'), None)
            if isinstance(first, dict) and first.get('f') == field:
                return oshort in ty or ty in ('Self', '&Self', '&mut Self')
            return True
        return pred
    for f in FA.lib_fns(include_closures=False):
        G = FA.inlined(f)
        if not _mentions_field(G, field) and not any(s.get('rv', {}).get('k') == 'agg' and s['rv']['kind'].get('adt') == owner
                                                      for b in G['blocks'] for s in b['s']):
            continue
        F = FA.fn(G)
        F.dom()
        pred = seed(F)
        # ---- readers
        tainted = forward_taint(F, pred)

        def op_t(o):
            return bool(o) and 'p' in o and (o['p']['l'] in tainted or pred(o['p']))
        for bi, b in enumerate(F.blocks):
            if bi not in F.reach:
                continue
            for s in b['s']:
                rv = s.get('rv')
                if not rv or rv['k'] != 'bin' or any(m.startswith('debug_assert') for m in s.get('macros', [])):
                    continue
                op = rv['op'].replace('Unchecked', '').replace('WithOverflow', '')
                if op == 'Shr' and op_t(rv['a']):
                    _shift_consts(F, rv, prof, 'shr')
                    prof['reader_fns'].add(fn_key(f))
                if op == 'BitAnd' and (op_t(rv['a']) or op_t(rv['b'])):
                    for o in (rv['a'], rv['b']):
                        ot = strip_casts(norm(F.operand_term(o)))
                        if isinstance(ot, tuple) and ot and ot[0] == 'const' and isinstance(ot[1], int):
                            v = ot[1]
                            if v > 3 and (v & (v + 1)) == 0:
                                prof['masks'].add(v)
                                prof['reader_fns'].add(fn_key(f))
        # ---- writers
        starts = []
        for bi, b in enumerate(F.blocks):
            if bi not in F.reach:
                continue
            for s in b['s']:
                rv = s['rv']
                if s['lhs']['proj'] and pred(s['lhs']):
                    for o in rv_operands(rv):
                        if 'p' in o:
                            starts.append(o['p']['l'])
                if s['lhs']['proj'] and s['lhs']['proj'][0] == '*' and s['lhs']['l'] in tainted and not pred(s['lhs']):
                    # store through a pointer obtained from the field (`for w in self.counters.iter_mut() { *w |= .. }`)
                    for o in rv_operands(rv):
                        if 'p' in o:
                            starts.append(o['p']['l'])
                if rv['k'] == 'agg' and rv['kind'].get('adt') == owner and fidx is not None and fidx < len(rv['ops']):
                    o = rv['ops'][fidx]
                    if 'p' in o:
                        starts.append(o['p']['l'])
            t = b['t']
            if t['k'] == 'call' and 'fn' in t['f'] and t['f']['fn']['name'] in CONTAINER_WRITES and t['args'] and 'p' in t['args'][0]:
                a0 = t['args'][0]['p']
                ok = pred(a0)
                ds = [d for d in F.defs.get(a0['l'], []) if d[0] in F.reach]
                if len(ds) == 1 and ds[0][1] == 'assign' and ds[0][2]['k'] == 'ref' and pred(ds[0][2]['p']):
                    ok = True
                if ok:
                    for a in t['args'][1:]:
                        if 'p' in a:
                            starts.append(a['p']['l'])
        if starts:
            S = backward_slice(F, starts)
            # closures the stored value is produced by (`sbc.map(|c| (c as u128) << 84)`): their shifts belong to the writer
            for l in list(S):
                for d in F.defs.get(l, []):
                    if d[1] == 'assign' and d[2]['k'] == 'agg' and 'closure' in d[2]['kind']:
                        for cg in FA.with_closures(FA.fns.get(d[2]['kind']['closure']) or {'blocks': [], 'path': ''}):
                            if not cg.get('blocks'):
                                continue
                            CF = FA.fn(FA.inlined(cg))
                            CF.dom()
                            for cb in (CF.blocks[i] for i in sorted(CF.reach)):
                                for cs in cb['s']:
                                    crv = cs['rv']
                                    if crv['k'] == 'bin' and crv['op'].replace('Unchecked', '').replace('WithOverflow', '') == 'Shl':
                                        lt = strip_casts(norm(CF.operand_term(crv['a'])))
                                        if lt[0] != 'const':
                                            _shift_consts(CF, crv, prof, 'shl')
                                            prof['writer_fns'].add(fn_key(f))
            for bi, b in enumerate(F.blocks):
                if bi not in F.reach:
                    continue
                for s in b['s']:
                    rv = s['rv']
                    if rv['k'] != 'bin' or any(m.startswith('debug_assert') or m.startswith('assert') for m in s.get('macros', [])):
                        continue
                    op = rv['op'].replace('Unchecked', '').replace('WithOverflow', '')
                    if op == 'Shl' and (s['lhs']['l'] in S or F.struct_root(s['lhs']['l']) in S):
                        lt = strip_casts(norm(F.operand_term(rv['a'])))
                        if lt[0] == 'const':
                            continue   # `1 << k` builds a mask or a size, not a field position
                        _shift_consts(F, rv, prof, 'shl')
                        prof['writer_fns'].add(fn_key(f))
    return prof


def _keep_prefetch_new(g):
    return default_inline_policy(g) and 'PrefetchSupport' not in g['path']


def rule_LAY(FA):
    out = []
    # (a) layouts
    for adt, size, align, props in (('qvector::DataLine', 64, 64, ['C14', 'C04', 'C13']), ('bitvector::DataLine', 64, 64, ['C14', 'C04', 'C08']),
                                    ('qvector::rs_qvector::rs_support_plain::SuperblockPlain', 64, 64, ['C14', 'C05'])):
        lay = (FA.layouts.get(adt) or {}).get('layout')
        key = 'R-LAY|a|layout %s' % adt
        if lay is None:
            out.append(Inst('R-LAY', key, 'violation', '', 'type or layout not found (anchor lost)', props))
        elif lay['size'] == size and lay['align'] == align:
            out.append(Inst('R-LAY', key, 'ok', FA.adts[adt]['span'], 'size %d, align %d' % (size, align), props, sample=lay))
        else:
            out.append(Inst('R-LAY', key, 'violation', FA.adts[adt]['span'], 'layout is size %d / align %d, expected %d / %d (one cache line)' % (lay['size'], lay['align'], size, align), props, sample=lay))
    # raw u64 view of the line array (cast_to_u64_slice): words per line constant == size_of(DataLine)/8.  The function is
    # found by what it does (slice::from_raw_parts::<u64> over a DataLine buffer), not by its name.
    key = 'R-LAY|a|cast_to_u64_slice'
    props = ['C04', 'C08']
    views = []
    for cf in FA.lib_fns():
        if not cf['path'].startswith('bitvector'):
            continue
        F = FA.fn(cf)
        for bi, t in F.calls():
            fn = t['f']['fn']
            if fn['name'] == 'from_raw_parts' and [g for g in fn.get('gargs', []) if not g.startswith("'")] == ['u64'] and len(t['args']) == 2:
                ln = norm(F.operand_term(t['args'][1]))
                mult = None
                for st in subterms(ln):
                    if isinstance(st, tuple) and st and st[0] == 'call' and st[1].split('::')[-1] in ('checked_mul', 'wrapping_mul', 'saturating_mul'):
                        for x in st[2]:
                            if x[0] == 'const':
                                mult = x[1]
                    if isinstance(st, tuple) and st and st[0] == 'bin' and st[1] in ('Mul', 'Shl') and st[3][0] == 'const':
                        mult = st[3][1] if st[1] == 'Mul' else 1 << st[3][1]
                    if isinstance(st, tuple) and st and st[0] == 'bin' and st[1] == 'Mul' and st[2][0] == 'const':
                        mult = st[2][1]
                lay = (FA.layouts.get('bitvector::DataLine') or {}).get('layout') or {}
                views.append((mult is not None and lay.get('size') == mult * 8, mult, lay.get('size'), t['line']))
    if not views:
        out.append(Inst('R-LAY', key, 'note', '', 'no slice::from_raw_parts::<u64> view of the line array in bitvector (nothing to check)', props))
    for okc in views:
        if okc[0]:
            out.append(Inst('R-LAY', key, 'ok', okc[3], 'u64 view has len * %d words and DataLine is %d bytes' % (okc[1], okc[2]), props))
        else:
            out.append(Inst('R-LAY', key, 'violation', okc[3], 'u64 view claims len * %s words but a DataLine holds %s bytes: the raw view reads outside the allocation' % (okc[1], okc[2]), props))
    # (b) packed counters
    for rec in PACKED:
        props = rec['props']
        key = 'R-LAY|b|%s' % rec['name']
        if rec['owner'] not in FA.adts:
            out.append(Inst('R-LAY', key, 'violation', '', 'type %s not found (anchor lost)' % rec['owner'], props))
            continue
        p = record_profile(FA, rec['owner'], rec['field'])
        problems = []
        undecided = []
        rsteps = p['step_shr'] | {x for x in p['abs_shr'] if x < 40}
        masks = {m for m in p['masks'] if m < (1 << 32)}      # wider masks cut out a region (e.g. everything below the absolute counter), not one field
        wsteps = p['step_shl'] | {x for x in p['abs_shl'] if x < 40}
        rsuper = {x for x in p['abs_shr'] if x >= 40}
        wsuper = {x for x in p['abs_shl'] if x >= 40}
        # Only a POSITIVE disagreement is a violation; a side that was not recognised (the packing was rewritten in a form the
        # dataflow does not follow) leaves the comparison undecided.
        if not rsteps:
            undecided.append('no per-field shift applied to a value read from `%s` was recognised' % rec['field'])
        if not wsteps:
            undecided.append('no per-field shift in the computation of the values stored into `%s` was recognised' % rec['field'])
        if len(rsteps) > 1:
            problems.append('readers disagree on the field width: %s' % sorted(rsteps))
        if len(wsteps) > 1:
            problems.append('writers disagree on the field width: %s' % sorted(wsteps))
        if rsteps and wsteps and rsteps != wsteps:
            problems.append('writer shifts fields by %s but readers by %s' % (sorted(wsteps), sorted(rsteps)))
        w = next(iter(rsteps)) if len(rsteps) == 1 else (next(iter(wsteps)) if len(wsteps) == 1 and not rsteps else None)
        if w is not None:
            for m in masks:
                if m != (1 << w) - 1:
                    problems.append('field mask %#x does not select exactly the %d-bit field' % (m, w))
            if (1 << w) <= rec['max_count']:
                problems.append('%d-bit field cannot hold the largest in-block count %d' % (w, rec['max_count']))
            if rec['super_bits']:
                if len(rsuper) > 1 or len(wsuper) > 1 or (rsuper and wsuper and rsuper != wsuper):
                    problems.append('absolute counter position differs: readers %s, writers %s' % (sorted(rsuper), sorted(wsuper)))
                elif not rsuper or not wsuper:
                    undecided.append('position of the absolute counter not recognised on the %s side' % ('reader' if not rsuper else 'writer'))
                for S in (rsuper | wsuper):
                    if rec['fields'] * w > S:
                        problems.append('%d fields of %d bits overlap the absolute counter at bit %d' % (rec['fields'], w, S))
                    if rec['word'] - S < rec['super_bits']:
                        problems.append('absolute counter has %d bits, %d needed for sequences up to 2^43' % (rec['word'] - S, rec['super_bits']))
            else:
                if rec['fields'] * w > rec['word']:
                    problems.append('%d fields of %d bits do not fit a %d-bit word' % (rec['fields'], w, rec['word']))
        problems = sorted(set(problems))
        sample = {'field_bits': w, 'reader_steps': sorted(rsteps), 'writer_steps': sorted(wsteps), 'masks': sorted(masks),
                  'super_shift_readers': sorted(rsuper), 'super_shift_writers': sorted(wsuper),
                  'reader_functions': sorted(p['reader_fns']), 'writer_functions': sorted(p['writer_fns'])}
        if problems:
            out.append(Inst('R-LAY', key, 'violation', '', '; '.join(problems), props, sample=sample))
        elif undecided:
            out.append(Inst('R-LAY', key, 'note', '', '; '.join(undecided) + ': writer / reader agreement not decided', props, sample=sample, nontrivial=False))
        else:
            out.append(Inst('R-LAY', key, 'ok', '', 'writer and readers agree: %d fields x %d bits, mask %s, absolute counter at bit %s' % (
                rec['fields'], w, ','.join('%#x' % m for m in sorted(masks)), sorted(rsuper) or '-'), props, sample=sample))
    # (c) constant relations
    rel = []

    def need(name, val):
        if val is None:
            # a private constant may be renamed; its value is then checked where it is used (R-DAR, R-SMP, R-HINT read the
            # literal values from the code), so a missing name is not an alarm
            rel.append((name, 'note', 'constant not found under the name it had on the reviewed tree'))
        return val is not None
    nb, nh1, nh0 = _const(FA, 'bitvector::rs_narrow::BLOCK_SIZE'), _const(FA, 'bitvector::rs_narrow::SELECT_ONES_PER_HINT'), _const(FA, 'bitvector::rs_narrow::SELECT_ZEROS_PER_HINT')
    if need('rs_narrow hint period', nb) and need('rs_narrow hint period', nh1) and need('rs_narrow hint period', nh0):
        ok = nh1 > nb * 64 and nh0 > nb * 64
        rel.append(('RSNarrow hint period > block bits', 'ok' if ok else 'violation', 'SELECT_*_PER_HINT = %d/%d, block = %d bits (two hints must not fall into one block)' % (nh1, nh0, nb * 64), ['C06']))
    wb, wh1, wh0 = _const(FA, 'bitvector::rs_wide::SUPERBLOCK_SIZE'), _const(FA, 'bitvector::rs_wide::SELECT_ONES_PER_HINT'), _const(FA, 'bitvector::rs_wide::SELECT_ZEROS_PER_HINT')
    wbs = _const(FA, 'bitvector::rs_wide::BLOCK_SIZE')
    if need('rs_wide hint period', wb) and need('rs_wide hint period', wh1) and need('rs_wide hint period', wh0) and need('rs_wide', wbs):
        ok = wh1 > wb * 64 and wh0 > wb * 64
        rel.append(('RSWide hint period > superblock bits', 'ok' if ok else 'violation', 'SELECT_*_PER_HINT = %d/%d, superblock = %d bits' % (wh1, wh0, wb * 64), ['C06', 'C14']))
        ok = wb == 8 * wbs and wbs * 64 == 512
        rel.append(('RSWide block geometry', 'ok' if ok else 'violation', 'superblock = %d words, block = %d words (8 blocks of one 512-bit line)' % (wb, wbs), ['C06']))
    b1, b2 = _const(FA, 'RSSupportPlain::BLOCKS_IN_SUPERBLOCK'), _const(FA, 'SuperblockPlain::BLOCKS_IN_SUPERBLOCK')
    if need('BLOCKS_IN_SUPERBLOCK', b1) and need('BLOCKS_IN_SUPERBLOCK', b2):
        rel.append(('duplicated BLOCKS_IN_SUPERBLOCK agree', 'ok' if b1 == b2 == 8 else 'violation', 'RSSupportPlain: %d, SuperblockPlain: %d' % (b1, b2), ['C05']))
    sn = _const(FA, 'RSSupportPlain::SELECT_NUM_SAMPLES')
    if need('SELECT_NUM_SAMPLES', sn) and b1:
        ok = sn > b1 * 512
        rel.append(('RSQVector select sample period > superblock symbols', 'ok' if ok else 'violation', 'SELECT_NUM_SAMPLES = %d, superblock = %d symbols' % (sn, b1 * 512), ['C05']))
    db, ds, dm = _const(FA, 'darray::BLOCK_SIZE'), _const(FA, 'darray::SUBBLOCK_SIZE'), _const(FA, 'darray::MAX_IN_BLOCK_DISTACE')
    if need('darray consts', db) and need('darray consts', ds) and need('darray consts', dm):
        ok = dm <= 65536 and db % ds == 0 and _p2(db) and _p2(ds)
        rel.append(('DArray constants', 'ok' if ok else 'violation', 'BLOCK %d, SUBBLOCK %d, MAX_IN_BLOCK_DISTANCE %d (<= 2^16 for the u16 offsets)' % (db, ds, dm), ['C07']))
    for r in rel:
        name, st, detail = r[0], r[1], r[2]
        props = r[3] if len(r) > 3 else ['C05', 'C06', 'C07']
        out.append(Inst('R-LAY', 'R-LAY|c|%s' % name, st, '', detail, props))
    # (d) the public type aliases are what their names say: the block size and the prefetch flag in the name are the ones
    # in the aliased type (the stated overheads 1/8, 1/16 and "prefetch support < 1%" are per alias)
    n_al = 0
    for name, ty in sorted(FA.aliases.items()):
        short = name.split('::')[-1]
        m = re.match(r'^(H?)(QWT|WT|RSQVector)(256|512)?(Pfs)?$', short)
        if not m:
            continue
        n_al += 1
        huff, kind, bs, pfs = m.groups()
        problems = []
        if bs == '512' and '<512>' not in ty:
            problems.append('name says block size 512, type is `%s`' % ty.split('RSQVector')[-1][:60])
        if bs == '256' and ('<512>' in ty or (re.search(r'RSSupportPlain<(\d+)>', ty) and '<256>' not in ty)):
            problems.append('name says block size 256, type is `%s`' % ty.split('RSQVector')[-1][:60])
        if kind == 'QWT':
            has_pfs = ty.rstrip('>').endswith(', true') or ty.endswith(', true>')
            if bool(pfs) != has_pfs:
                problems.append('name %s prefetch support, type %s it' % ('says' if pfs else 'does not say', 'has' if has_pfs else 'does not have'))
            if bool(huff) != ('HuffQWaveletTree' in ty):
                problems.append('Huffman-shaped name / plain type mismatch')
        if kind == 'WT':
            comp = ty.endswith(', true>')
            if bool(huff) != comp:
                problems.append('name %s compressed, type %s' % ('says' if huff else 'does not say', 'is' if comp else 'is not'))
            # the stated space of the binary trees (about 1.05 n bitlen) is the overhead of RSWide (3.9 %); RSNarrow carries
            # two words per 512 bits plus hints (about 31 %)
            if 'RSNarrow' in ty:
                problems.append('the binary wavelet tree is instantiated with RSNarrow (overhead about 31 %), the stated 1.05 bound is that of RSWide')
        props = ['C14', 'C09'] + (['C02', 'C15'] if huff and kind == 'QWT' else ['C01'] if kind == 'QWT' else ['C03', 'C15'] if kind == 'WT' else ['C05'])
        out.append(Inst('R-LAY', 'R-LAY|d|alias %s' % short, 'violation' if problems else 'ok', 'src/lib.rs',
                        '; '.join(problems) if problems else '%s = %s' % (short, ty.replace('qvector::rs_qvector::rs_support_plain::', '').replace('qvector::rs_qvector::', '')[:110]), props))
    if FA.aliases is not None and n_al == 0:
        out.append(Inst('R-LAY', 'R-LAY|d|aliases', 'note', '', 'no QWT*/HQWT*/WT/HWT type alias found', ['C14'], nontrivial=False))
    # computed relative overheads (C14)
    sb = (FA.layouts.get('qvector::rs_qvector::rs_support_plain::SuperblockPlain') or {}).get('layout')
    if sb and b1:
        for B, bound in ((256, 1 / 8), (512, 1 / 16)):
            data_bytes = b1 * B * 2 / 8
            r = sb['size'] / data_bytes
            samp = (4 * 4) / (sn * 2 / 8) if sn else 0  # one u32 per symbol class per SELECT_NUM_SAMPLES occurrences
            ok = r <= bound + 1e-12 and samp < 0.01
            out.append(Inst('R-LAY', 'R-LAY|overhead|RSQVector%d' % B, 'ok' if ok else 'violation', '',
                            'rank counters: %d B per %d B of data = %.4f (bound %.4f); select samples %.5f' % (sb['size'], data_bytes, r, bound, samp), ['C14'],
                            sample={'superblock_bytes': sb['size'], 'data_bytes': data_bytes, 'ratio': r}))
    if wb and wh1 and wh0:
        # worst case of each hint table: all bits are ones (resp. zeros)
        r = 16 / (wb * 8) + max(8 / (wh1 / 8), 8 / (wh0 / 8))
        out.append(Inst('R-LAY', 'R-LAY|overhead|RSWide', 'ok' if r <= 0.05 else 'violation', '',
                        'one u128 per %d bytes of data + one hint word per %d ones / %d zeros = %.4f (bound 0.05)' % (wb * 8, wh1, wh0, r), ['C14'], sample={'ratio': r}))
    # prefetch support sampling rate: 4 bits per 2^k symbols
    n_pfs = 0
    for base in ('quadwt::QWaveletTree', 'quadwt::huffqwt::HuffQWaveletTree'):
        f = _fn(FA, base, 'new')
        if f is None:
            continue
        fi = FA.inlined(f, _keep_prefetch_new)
        for spec in FA.specs(f, deep=True):
            if not spec.get('WITH_PREFETCH_SUPPORT', True):
                continue
            F = FA.fn(fi, spec)
            for bi, t in F.calls():
                if t['f']['fn']['name'] == 'new' and 'PrefetchSupport' in t['f']['fn']['path'] and len(t['args']) == 2:
                    k = norm(F.operand_term(t['args'][1]))
                    n_pfs += 1
                    # the shift the READER applies is what the constructor stores from that argument (`sample_rate.ilog2()`
                    # of an argument that callers still pass as a logarithm stores log2(11) = 3)
                    k_eff = _effective_shift(FA, t['f']['fn'], k)
                    if k_eff is None:
                        out.append(Inst('R-LAY', 'R-LAY|overhead|prefetch support %s%s' % (base.split('::')[-1], spec_key(spec)), 'note', t['line'],
                                        'the sampling shift stored by PrefetchSupport::new for the argument `%s` is computed in a way the rule does not evaluate: overhead not decided' % show(k), ['C14', 'C09'], nontrivial=False))
                        continue
                    k = ('const', k_eff) if k[0] == 'const' else k
                    ok = k[0] == 'const' and k[1] >= 10
                    ratio = (4 * 1.25) / ((1 << k[1]) * 2) if k[0] == 'const' else 1
                    out.append(Inst('R-LAY', 'R-LAY|overhead|prefetch support %s%s' % (base.split('::')[-1], spec_key(spec)), 'ok' if ok else 'violation', t['line'],
                                    'one sample bit per symbol class per 2^%s symbols: %.5f of the level data (bound 0.01)' % (show(k), ratio), ['C14', 'C09']))
    if n_pfs == 0:
        out.append(Inst('R-LAY', 'R-LAY|overhead|prefetch support', 'violation', '', 'no PrefetchSupport::new call found (anchor lost)', ['C14']))
    return out


def _effective_shift(FA, callee, arg):
    """value of the field that `approx_rank_unchecked` shifts positions by, as stored by the constructor for a constant argument"""
    if arg[:1] != ('const',):
        return arg[1] if len(arg) > 1 and isinstance(arg[1], int) else 0
    g = next(iter(FA.resolve(callee)), None)
    rd = next((h for h in FA.lib_fns(include_closures=False) if h['name'] == 'approx_rank_unchecked' and h.get('_base') == (g or {}).get('_base')), None)
    if g is None or rd is None:
        return None
    R = FA.fn(rd)
    shf = None
    for bi, b in enumerate(R.blocks):
        for s_ in b['s']:
            rv = s_.get('rv')
            if rv and rv['k'] == 'bin' and rv['op'].replace('Unchecked', '') == 'Shr':
                a = strip_casts(norm(R.operand_term(rv['b'])))
                if a[:1] == ('field',) and a[1] == ('param', 'self'):
                    shf = a[2]
    if shf is None:
        return None
    adt = FA.adts.get(g['_base']) or {}
    names = [x['name'] for x in adt.get('fields', [])]
    if shf not in names:
        return None
    G = FA.fn(g)
    G.dom()
    owner = FA.canon_type(g['_base']) or g['_base']
    pname = ('param', g['names'].get('2', '_2'))
    for bi, b in enumerate(G.blocks):
        if bi not in G.reach:
            continue
        for s_ in b['s']:
            rv = s_['rv']
            if rv['k'] == 'agg' and rv['kind'].get('adt') == owner and names.index(shf) < len(rv['ops']):
                t = strip_casts(norm(G.operand_term(rv['ops'][names.index(shf)])))
                return _eval_const_fn(t, pname, arg[1])
    return None


def _eval_const_fn(t, pname, val):
    t = strip_casts(t)
    if t == pname:
        return val
    if not isinstance(t, tuple) or not t:
        return None
    if t[0] == 'const' and isinstance(t[1], int):
        return t[1]
    if t[0] == 'call' and len(t[2]) == 1:
        a = _eval_const_fn(t[2][0], pname, val)
        nm = t[1].split('::')[-1]
        if a is None or a <= 0:
            return None
        if nm in ('ilog2', 'checked_ilog2'):
            return a.bit_length() - 1
        if nm == 'trailing_zeros':
            return (a & -a).bit_length() - 1
        return None
    if t[0] == 'bin' and t[1] in ('Add', 'Sub', 'Shl', 'Shr', 'Mul'):
        a, b = _eval_const_fn(t[2], pname, val), _eval_const_fn(t[3], pname, val)
        if a is None or b is None:
            return None
        try:
            return {'Add': a + b, 'Sub': a - b, 'Shl': a << b, 'Shr': a >> b, 'Mul': a * b}[t[1]]
        except Exception:
            return None
    return None


def _p2(n):
    return n > 0 and (n & (n - 1)) == 0


def rule_TAB(FA):
    props = ['C17']
    tab = None
    # the table is recognised by its shape (a [u8; 2048] constant in utils), whatever it is called
    for k, v in sorted(FA.consts.items()):
        if isinstance(v['val'], list) and len(v['val']) == 2048 and 'utils' in k:
            tab = v['val']
    if tab is None or len(tab) != 2048:
        return [Inst('R-TAB', 'R-TAB|K_SELECT_IN_BYTE', 'violation', '', 'table not found or not 2048 entries (anchor lost)', props)]
    wrong = []
    for k in range(8):
        for b in range(256):
            pos = 8
            c = 0
            for bit in range(8):
                if (b >> bit) & 1:
                    if c == k:
                        pos = bit
                        break
                    c += 1
            if tab[(k << 8) | b] != pos:
                wrong.append((k, b, tab[(k << 8) | b], pos))
    if wrong:
        k, b, got, want = wrong[0]
        return [Inst('R-TAB', 'R-TAB|K_SELECT_IN_BYTE', 'violation', 'src/utils/mod.rs',
                     '%d of 2048 entries differ from the definition; e.g. entry [k=%d, byte=%#04x] is %d, the position of the (k+1)-th set bit is %d' % (len(wrong), k, b, got, want),
                     props, sample={'wrong_entries': [list(w) for w in wrong[:8]]})]
    return [Inst('R-TAB', 'R-TAB|K_SELECT_IN_BYTE', 'ok', 'src/utils/mod.rs',
                 'all 2048 entries equal the position of the (k+1)-th set bit of the byte (8 if none)', props, sample={'entries_checked': 2048, 'exhaustive': True})]


# ---------------------------------------------------------------- R-SPLIT

# Functions whose position arithmetic splits an index into (quotient, remainder) by a power of two; the 30
# instances were listed from the tree and each confirmed by reading (word index / bit in word, line / position in
# line, block / offset in block, group / sub-group).  A split whose shift and mask disagree addresses the wrong
# word or bit.  Functions outside the table are reported as notes only.
SPLIT_TABLE = {
    'bitvector::DataLine::AccessBin::get_unchecked': ['C08', 'C06'],
    'bitvector::DataLine::set_symbol': ['C08'],
    'bitvector::rs_narrow::RSNarrow::RankBin::rank1_unchecked': ['C06'],
    'bitvector::rs_narrow::RSNarrow::SelectBin::select0_unchecked': ['C06'],
    'bitvector::rs_narrow::RSNarrow::SelectBin::select1_unchecked': ['C06'],
    'bitvector::rs_narrow::RSNarrow::sub_block_rank': ['C06'],
    'bitvector::rs_wide::RSWide::RankBin::rank1_unchecked': ['C06', 'C03'],
    'bitvector::rs_wide::RSWide::new': ['C06', 'C03'],
    'bitvector::rs_wide::RSWide::sub_block_rank': ['C06', 'C03'],
    'qvector::DataLine::AccessQuad::get_unchecked': ['C13', 'C05'],
    'qvector::DataLine::RankQuad::rank_unchecked': ['C05'],
    'qvector::DataLine::set_symbol': ['C13'],
    'qvector::DataLine::normalize': ['C05'],
    'qvector::QVector::AccessQuad::get_unchecked': ['C13', 'C05'],
    'bitvector::BitVector::get_word': ['C08'],
    'bitvector::BitVectorMut::get_word': ['C08'],
    'bitvector::BitVectorBitPositionsIter::with_pos': ['C08', 'C07'],
    'bitvector::BitVectorMut::get_bit_slice': ['C08'],
    'bitvector::BitVectorMut::get_bits_slice': ['C08'],
    'bitvector::BitVectorMut::set': ['C08'],
    'bitvector::BitVectorMut::set_bits': ['C08'],
    'darray::DArray::select': ['C07'],
    'qvector::rs_qvector::RSQVector::rank_intra_block': ['C05', 'C01', 'C02'],
    'qvector::rs_qvector::rs_support_plain::SuperblockPlain::block_predecessor': ['C05'],
}


def rule_SPLIT(FA):
    out = []
    seen_fns = set()
    for f in FA.lib_fns(include_closures=False):
        k = fn_key(f)
        fi = FA.inlined(f)   # quotient and remainder of one position may be taken in different private helpers
        for spec in FA.specs(f):
            F = FA.fn(fi, spec)
            F.dom()
            uses = collections.defaultdict(set)
            lines = {}
            for bi, b in enumerate(F.blocks):
                if bi not in F.reach:
                    continue
                for s in b['s']:
                    rv = s.get('rv')
                    if not rv or rv['k'] != 'bin':
                        continue
                    op = rv['op'].replace('WithOverflow', '').replace('Unchecked', '')
                    if op in ('Shr', 'BitAnd', 'Div', 'Rem'):
                        a = norm(F.operand_term(rv['a']))
                        c = norm(F.operand_term(rv['b']))
                        if op == 'BitAnd' and a[0] == 'const':
                            a, c = c, a
                        if c[0] == 'const' and a[0] != 'const' and not has_unknown(a) or (c[0] == 'const' and a[0] == 'unknown'):
                            uses[a].add((op, c[1]))
                            lines.setdefault(a, s['line'])
            for a, us in uses.items():
                Q = set()
                M = set()
                for op, c in us:
                    if op == 'Shr':
                        Q.add(1 << c)
                    elif op == 'Div':
                        Q.add(c)
                    elif op == 'Rem':
                        M.add(c)
                    elif op == 'BitAnd' and c > 0 and (c & (c + 1)) == 0:
                        M.add(c + 1)
                if not Q or not M:
                    continue
                props = SPLIT_TABLE.get(k)
                key = 'R-SPLIT|%s%s|%s' % (k, spec_key(spec), show(a)[:50])
                # a contradiction needs a quotient without its remainder AND a remainder without its quotient (`>> 6` with
                # `& 31`); an extra quotient alone (line index next to word index) is not one
                if not (Q - M and M - Q):
                    if props:
                        seen_fns.add(k)
                        out.append(Inst('R-SPLIT', key, 'ok', lines[a], 'index split by %s: quotient and remainder agree' % sorted(Q), props,
                                        sample={'term': show(a)[:80], 'quotients': sorted(Q), 'remainders': sorted(M)}))
                else:
                    st = 'violation' if props else 'note'
                    if props:
                        seen_fns.add(k)
                    out.append(Inst('R-SPLIT', key, st, lines[a],
                                    '`%s` is divided by %s but reduced modulo %s: quotient and remainder of one position disagree (wrong word / bit / block addressed)' % (
                                        show(a)[:60], sorted(Q), sorted(M)), props or ['C08'],
                                    sample={'term': show(a)[:80], 'quotients': sorted(Q), 'remainders': sorted(M)}))
    for k, props in SPLIT_TABLE.items():
        if k not in seen_fns:
            out.append(Inst('R-SPLIT', 'R-SPLIT|%s|anchor' % k, 'note', '', 'confirmed index-split site no longer found (function renamed or its position arithmetic restructured)', props, nontrivial=False))
    return out


# ---------------------------------------------------------------- R-SMP

def _affine(t):
    """t == base + c  ->  (base, c)"""
    if isinstance(t, tuple) and t and t[0] == 'bin' and t[1] in ('Add', 'Sub'):
        a, b = t[2], t[3]
        if b[0] == 'const':
            return a, (b[1] if t[1] == 'Add' else -b[1])
        if a[0] == 'const' and t[1] == 'Add':
            return b, a[1]
    return t, 0


def rule_SMP(FA):
    """Select samples of RSSupportPlain: the writer stores the superblock of every N-th occurrence counting from 0
    (test `occs % N == 0` before the counter is incremented); the reader must look up slot floor(k / N) for the 0-based
    occurrence k it is asked for.  The rule composes the caller's argument (k + 1) with the reader's index
    ((i - 1) / N) and requires offset 0 and the same N on both sides."""
    props = ['C05', 'C01', 'C02', 'C04']
    out = []
    base = 'qvector::rs_qvector::rs_support_plain::RSSupportPlain'
    rd = _fn(FA, base, 'select_block')
    wr = _fn(FA, base, 'new')
    if rd is None or wr is None:
        return [Inst('R-SMP', 'R-SMP|RSSupportPlain select samples', 'violation', '', 'select_block / new not found (anchor lost)', props)]
    R = FA.fn(FA.inlined(rd))
    R.dom()
    P = ('param', rd['names'].get('3', '_3'))
    slots = []
    for b in R.blocks:
        for s in b['s']:
            rv = s.get('rv')
            if not rv:
                continue
            for o in [rv.get('a'), rv.get('b')] + list(rv.get('ops', [])) + ([{'p': rv['p']}] if 'p' in rv else []):
                if o and 'p' in o:
                    t = _resolve_consts_l(FA, norm(R.operand_term(o)))
                    for st in subterms(t):
                        if isinstance(st, tuple) and st and st[0] == 'index' and any(isinstance(x, tuple) and x and x[0] == 'field' and x[2] == 'select_samples' for x in subterms(st[1])):
                            idx = norm(st[2])
                            if contains(idx, P):
                                slots.append(idx)
    cand = []
    for idx in slots:
        core, plus = _affine(idx)
        if core[0] == 'bin' and core[1] in ('Shr', 'Div') and core[3][0] == 'const':
            N = (1 << core[3][1]) if core[1] == 'Shr' else core[3][1]
            b0, c = _affine(core[2])
            if b0 == P:
                cand.append((plus, N, c))
    if not cand:
        return [Inst('R-SMP', 'R-SMP|RSSupportPlain select samples', 'violation', rd['span'], 'cannot find the sample slot index `(i + c) / N` in select_block (anchor lost)', props)]
    cand.sort()
    _, N_r, c_r = cand[0]
    # callers
    c_calls = []
    for f in FA.lib_fns(include_closures=False):
        for spec in FA.specs(f):
            F = FA.fn(f, spec)
            for bi, t in F.calls():
                if t['f']['fn']['name'] == 'select_block' and len(t['args']) == 3:
                    a = norm(F.operand_term(t['args'][2]))
                    b0, c = _affine(a)
                    c_calls.append((fn_key(f), c, show(a), t['line'], b0[0] == 'param'))
    # writer: `if occs[symbol] % N == 0 { samples.push(..) } ... occs[symbol] += 1`
    W = FA.fn(FA.inlined(wr))
    dom = W.dom()
    N_w = None
    order_ok = None
    for bi, b in enumerate(W.blocks):
        if bi not in W.reach:
            continue
        for s in b['s']:
            rv = s.get('rv')
            if not rv or rv['k'] != 'bin' or rv['op'] != 'Rem':
                continue
            c = _resolve_consts_l(FA, norm(W.operand_term(rv['b'])))
            if c[0] != 'const' or c[1] < 64:
                continue
            src = rv['a']
            L = None
            if 'p' in src:
                pl = src['p']
                if not pl['proj']:
                    ds = [d for d in W.defs.get(pl['l'], []) if d[0] in W.reach]
                    if len(ds) == 1 and ds[0][1] == 'assign' and ds[0][2]['k'] == 'use' and 'p' in ds[0][2]['a']:
                        pl = ds[0][2]['a']['p']
                if any(isinstance(e, dict) and 'idx' in e for e in pl['proj']):
                    L = pl['l']
            if L is None:
                continue
            # a push must be control-dependent on this test
            guarded_push = False
            for bj, t in W.calls():
                if t['f']['fn']['name'] == 'push' and bi in dom[bj] and bj != bi:
                    for a in path_atoms(W, bj):
                        if a[0] == '==' and (a[1] == ('const', 0) or a[2] == ('const', 0)):
                            other = a[2] if a[1] == ('const', 0) else a[1]
                            o2 = _resolve_consts_l(FA, other)
                            if o2[0] == 'bin' and o2[1] == 'Rem' and o2[3] == c:
                                guarded_push = True
                            if o2[0] == 'bin' and o2[1] == 'BitAnd' and ('const', c[1] - 1) in (o2[2], o2[3]):
                                guarded_push = True
            if not guarded_push:
                continue
            N_w = c[1]
            inc_blocks = []
            for bj, b2 in enumerate(W.blocks):
                for s2 in b2['s']:
                    if 'lhs' in s2 and s2['lhs']['l'] == L and any(isinstance(e, dict) and 'idx' in e for e in s2['lhs']['proj']):
                        rvt = norm(W.rvalue_term(s2['rv']))
                        if rvt[0] == 'bin' and rvt[1] == 'Add' and ('const', 1) in (rvt[2], rvt[3]):
                            inc_blocks.append(bj)
            order_ok = bool(inc_blocks) and all(bj not in dom[bi] for bj in inc_blocks)
    key = 'R-SMP|RSSupportPlain select samples'
    problems = []
    # inclusive / exclusive convention of the sample values: every sample (and the final sentinel) is the id of an existing
    # superblock, so the writer's sentinel is `superblocks.len() - 1` and the reader turns the NEXT sample into an exclusive
    # upper bound by adding 1
    sent = []
    for bi, t in W.calls():
        if t['f']['fn']['name'] != 'push' or len(t['args']) != 2:
            continue
        v = norm(W.operand_term(t['args'][1]))
        lens = [x for x in subterms(v) if isinstance(x, tuple) and x[:1] == ('call',) and x[1].split('::')[-1] == 'len']
        if not lens:
            continue
        sv = strip_casts(v)
        incl = sv[:2] == ('bin', 'Sub') and sv[3] == ('const', 1) and strip_casts(sv[2])[:1] == ('call',)
        sent.append((incl, show(v)[:60], t.get('line', '')))
    next_plus_one = None
    for bi, b in enumerate(R.blocks):
        if bi not in R.reach:
            continue
        for s_ in b['s']:
            rv = s_.get('rv')
            if not rv:
                continue
            tm = _resolve_consts_l(FA, norm(R.rvalue_term(rv)))
            for st in subterms(tm):
                if isinstance(st, tuple) and st[:1] == ('index',) and any(isinstance(x, tuple) and x[:1] == ('field',) and x[2] == 'select_samples' for x in subterms(st[1])):
                    core, plus = _affine(norm(st[2]))
                    if plus == 1 + cand[0][0]:
                        # this is the read of the NEXT slot: is it used as `1 + sample`?
                        if next_plus_one is None:
                            next_plus_one = False
                        for outer in subterms(tm):
                            if isinstance(outer, tuple) and outer[:2] == ('bin', 'Add') and ('const', 1) in (outer[2], outer[3]) \
                                    and st in (strip_casts(outer[2]), strip_casts(outer[3])):
                                next_plus_one = True
    if len(sent) > 1:
        sent = []   # ids are also derived from `superblocks.len()` elsewhere: which push is the sentinel is not decided
    if sent and not all(i for i, _, _ in sent):
        problems.append('the sentinel pushed after the last sample is `%s`, not the id of the last superblock (`superblocks.len() - 1`): samples are inclusive superblock ids' % [v for i, v, _ in sent if not i][0])
    if next_plus_one is False:
        problems.append('select_block uses the next sample as its upper bound without adding 1: samples are inclusive superblock ids, the superblock that holds the sampled occurrence is excluded from the search')
    if N_w is None:
        problems.append('writer: no push under `counter % N == 0` found')
    elif N_w != N_r:
        problems.append('writer samples every %d occurrences, reader divides by %d' % (N_w, N_r))
    if order_ok is False:
        problems.append('writer tests the occurrence counter after incrementing it (1-based) or the increment was not found')
    if not c_calls:
        problems.append('no caller of select_block found')
    for fk, c, shown, line, isparam in c_calls:
        if c + c_r != 0:
            problems.append('%s asks select_block for `%s` and select_block reads slot `(i %+d) / %d`: the slot of the 0-based occurrence k is (k %+d) / %d, not k / %d' % (
                fk.split('::')[-1], shown, c_r, N_r, c + c_r, N_r, N_r))
    sample = {'reader_divisor': N_r, 'reader_offset': c_r, 'writer_period': N_w, 'callers': [(x[0], x[1]) for x in c_calls], 'writer_counts_from_zero': order_ok}
    if problems:
        out.append(Inst('R-SMP', key, 'violation', rd['span'], '; '.join(problems), props, sample=sample))
    else:
        out.append(Inst('R-SMP', key, 'ok', rd['span'], 'writer samples occurrence 0, %d, 2*%d, ... (0-based); reader slot = ((k+1) - 1) / %d' % (N_w, N_w, N_r), props, sample=sample))
    return out


def _resolve_consts_l(FA, t):
    from .r_misc import _resolve_consts
    return norm(_resolve_consts(FA, t))


# ---------------------------------------------------------------- R-HINT

POPCALLS = ('count_ones', 'n_ones', 'n_zeros', 'count_zeros')
INT_TYPES = ('usize', 'u64', 'u128', 'u32', 'u16', 'u8', 'i64', 'i32', 'isize')


def _roots(F, operand, depth=0, seen=None):
    """Named (source-level) locals an operand is computed from, through copies, casts and arithmetic."""
    seen = seen if seen is not None else set()
    out = set()
    if not operand or 'p' not in operand:
        return out
    l = operand['p']['l']
    if l in seen or depth > 10:
        return out
    seen.add(l)
    ds_l = F.defs.get(l, [])
    is_inlined_param = len(ds_l) == 1 and ds_l[0][1] == 'assign' and 'arg_of' in F.blocks[ds_l[0][0]]['s'][ds_l[0][3]]
    if l in F.names and not is_inlined_param:
        out.add(l)
        return out
    for d in F.defs.get(l, []):
        if d[1] == 'assign':
            rv = d[2]
            for k in ('a', 'b'):
                if k in rv and isinstance(rv[k], dict):
                    out |= _roots(F, rv[k], depth + 1, seen)
            if 'p' in rv and rv['k'] in ('ref', 'use'):
                out |= _roots(F, {'p': rv['p']}, depth + 1, seen)
        else:
            out.add(('call', d[2]['f'].get('fn', {}).get('name', '?'), l))
    return out


def _pop_fn(FA, path, depth=0, seen=None):
    """Does the crate function `path` compute a population count (calls count_ones/count_zeros, possibly through
    closures and helpers)?"""
    seen = seen if seen is not None else set()
    if path in seen or depth > 4:
        return False
    seen.add(path)
    g = FA.fns.get(path)
    if g is None:
        return False
    if g['name'] in POPCALLS:
        return True
    for b in g['blocks']:
        t = b['t']
        if t['k'] == 'call' and 'fn' in t['f'] and t['f']['fn']['name'] in POPCALLS:
            return True
    return any(_pop_fn(FA, q, depth + 1, seen) for q in FA.callees_of(g))


def _derives_from_popcall(F, operand, depth=0, seen=None):
    seen = seen if seen is not None else set()
    if not operand or 'p' not in operand:
        return False
    l = operand['p']['l']
    if l in seen or depth > 10:
        return False
    seen.add(l)
    for d in F.defs.get(l, []):
        if d[1] == 'call':
            fn = d[2]['f'].get('fn', {})
            if fn.get('name') in POPCALLS:
                return True
            if fn and any(_pop_fn(F.facts, g['path']) for g in F.facts.resolve(fn)):
                return True
            # `words.iter().map(|w| w.count_ones()).sum()`: the popcount sits in a closure handed to the adaptor chain
            for a in d[2]['args']:
                tm = F.operand_term(a)
                for x in subterms(tm):
                    if isinstance(x, tuple) and x[:1] == ('agg',) and isinstance(x[1], str) and x[1].startswith('closure:') and _pop_fn(F.facts, x[1][len('closure:'):]):
                        return True
                if isinstance(a, dict) and 'p' in a and _derives_from_popcall(F, a, depth + 1, seen):
                    return True
        else:
            st = F.blocks[d[0]]['s'][d[3]]
            if 'ret_of' in st and _pop_fn(F.facts, st['ret_of']):
                return True
            rv = d[2]
            for k in ('a', 'b'):
                if k in rv and isinstance(rv[k], dict) and _derives_from_popcall(F, rv[k], depth + 1, seen):
                    return True
    return False


def rule_HINT(FA):
    """Select hints of RSNarrow / RSWide: the counter tested against the hint period (`count / PER_HINT > cur_hint`)
    must already include the population of the line being scanned: one of the variables it is computed from is
    updated from a popcount of the current item in a block that dominates the test.  Testing a stale total records a
    crossing of the period only at the next refresh, so the hint table misses it (select reads past the table)."""
    out = []
    props = ['C06', 'C03']
    for base in ('bitvector::rs_narrow::RSNarrow', 'bitvector::rs_wide::RSWide'):
        f = _fn(FA, base, 'new')
        if f is None:
            out.append(Inst('R-HINT', 'R-HINT|%s::new' % base, 'violation', '', 'constructor not found (anchor lost)', props))
            continue
        F = FA.fn(FA.inlined(f))
        dom = F.dom()
        n = 0
        for bi, b in enumerate(F.blocks):
            if bi not in F.reach:
                continue
            t = b['t']
            if t['k'] != 'switch' or 'p' not in t['d']:
                continue
            # discriminant = Gt/Lt(quotient, cur_hint) with quotient = x / PER_HINT
            dl = t['d']['p']['l']
            ds = F.defs.get(dl, [])
            if len(ds) != 1 or ds[0][1] != 'assign' or ds[0][2]['k'] != 'bin' or ds[0][2]['op'] not in ('Gt', 'Lt', 'Ge', 'Le'):
                continue
            cmp_rv = ds[0][2]
            quot = None
            for side in ('a', 'b'):
                o = cmp_rv[side]
                if 'p' in o and not o['p']['proj']:
                    d2 = F.defs.get(o['p']['l'], [])
                    if len(d2) == 1 and d2[0][1] == 'assign' and d2[0][2]['k'] == 'bin' and d2[0][2]['op'] in ('Div', 'Shr'):
                        den = norm(F.operand_term(d2[0][2]['b']))
                        den = strip_casts(den)
                        if den[0] == 'const' and den[1] >= 256:
                            quot = d2[0][2]['a']
            if quot is None:
                continue
            # is a push into the sample table control-dependent on this test?
            pushes = [bj for bj, tt in F.calls() if tt['f']['fn']['name'] == 'push' and bi in dom[bj] and bj != bi
                      and any(isinstance(x, tuple) and x and x[0] in ('index', 'call') for x in subterms(norm(F.operand_term(tt['args'][0]))))]
            if not pushes:
                continue
            n += 1
            # the other side of the test is the number of hints taken so far: it is ADVANCED when a hint is taken; a constant
            # stored into it (`cur_hint = 1` for `cur_hint += 1`) makes every later line look like a new crossing
            for side in ('a', 'b'):
                o = cmp_rv[side]
                if 'p' not in o or o['p']['proj']:
                    continue
                hl = o['p']['l']
                for _ in range(3):     # through copies
                    dh = F.defs.get(hl, [])
                    if len(dh) == 1 and dh[0][1] == 'assign' and dh[0][2]['k'] in ('use', 'cast') and 'p' in dh[0][2]['a'] and not dh[0][2]['a']['p']['proj']:
                        hl = dh[0][2]['a']['p']['l']
                    else:
                        break
                if F.names.get(hl) is None or hl in {r for r in _roots(F, quot) if isinstance(r, int)}:
                    continue
                stores = [d for d in F.defs.get(hl, []) if d[1] == 'assign' and d[0] in F.reach and bi in dom[d[0]] and d[0] != bi]
                consts = [d for d in stores if norm(F.rvalue_term(d[2]))[:1] == ('const',)]
                if stores and len(consts) == len(stores):
                    out.append(Inst('R-HINT', 'R-HINT|%s::new|%s advances' % (base, F.names.get(hl)), 'violation', t.get('line', ''),
                                    'when a hint is taken `%s` is set to the constant %s instead of being advanced: after the second period every line is recorded as a crossing, the hint table no longer maps k / period to a block' % (
                                        F.names.get(hl), show(norm(F.rvalue_term(consts[0][2])))), props))
            roots = {r for r in _roots(F, quot) if isinstance(r, int)}
            fresh = []

            def is_fresh(l, depth=0, seen=None):
                """l has a definition that dominates the test and adds a popcount of the current item, directly or through
                other variables (`n_zeros = (b + 1) * 512 - n_ones` with `n_ones += block_ones` just before)"""
                seen = seen if seen is not None else set()
                if l in seen or depth > 4:
                    return False
                seen.add(l)
                for d in F.defs.get(l, []):
                    if d[1] != 'assign' or d[0] not in dom[bi]:
                        continue
                    rv = d[2]
                    # look through `x = move (tmp.0)` of checked arithmetic
                    for _ in range(3):
                        if rv['k'] in ('use', 'cast') and 'p' in rv['a']:
                            d3 = F.defs.get(rv['a']['p']['l'], [])
                            if len(d3) == 1 and d3[0][1] == 'assign':
                                rv = d3[0][2]
                                continue
                        break
                    if rv['k'] == 'bin':
                        if rv['op'].startswith('Add') and any(_derives_from_popcall(F, rv[k]) for k in ('a', 'b')):
                            return True
                        for k in ('a', 'b'):
                            for r2 in _roots(F, rv[k]):
                                if isinstance(r2, int) and r2 != l and is_fresh(r2, depth + 1, seen):
                                    return True
                return False
            for r in roots:
                if is_fresh(r):
                    fresh.append(F.names.get(r))
            key = 'R-HINT|%s::new|%s' % (base, '+'.join(sorted(F.names.get(r, '?') for r in roots)))
            if not fresh and any(F.locals[r] not in INT_TYPES for r in roots):
                out.append(Inst('R-HINT', key, 'note', t.get('line', ''), 'the tested counter lives in a struct (`%s`): freshness not decided' % ', '.join(sorted(F.names.get(r, '?') for r in roots)), props, nontrivial=False))
                continue
            if fresh:
                out.append(Inst('R-HINT', key, 'ok', t.get('line', ''), 'hint test reads `%s`, updated from the current line\'s popcount before the test' % ', '.join(sorted(set(fresh))), props,
                                sample={'numerator_variables': sorted(F.names.get(r, '?') for r in roots), 'fresh': sorted(set(fresh))}))
            else:
                out.append(Inst('R-HINT', key, 'violation', t.get('line', ''),
                                'hint test reads only `%s`, none of which is updated from the current line\'s popcount on every path to the test: a crossing of the hint period inside the line/superblock is recorded late or never' % (
                                    ', '.join(sorted(F.names.get(r, '?') for r in roots))), props,
                                sample={'numerator_variables': sorted(F.names.get(r, '?') for r in roots)}))
        if n < 2:
            # the crossing of a hint period may be tested in another form (`before / H != after / H`, `.. >= samples.len()`):
            # not recognised means not decided
            out.append(Inst('R-HINT', 'R-HINT|%s::new|tests' % base, 'note', f['span'], 'hint tests of the form `count / PER_HINT > cur_hint` found: %d of 2; the others are written in a form the rule does not interpret' % n, props, nontrivial=False))
    return out
