"""R-DA: debug assertions in unchecked paths agree with the documented precondition.
R-DBG: build profiles differ only by assertions (no other debug-only code).
"""
from .core import *
from .report import Inst
from . import r_guard

SELF = ('param', 'self')


def canon_term(t):
    """Compare terms modulo the `_unchecked` suffix of crate methods and `Some(x)` wrappers."""
    if isinstance(t, tuple) and t:
        if t[0] == 'call' and t[1].endswith('_unchecked'):
            return ('call', t[1][:-len('_unchecked')], tuple(canon_term(x) for x in t[2]))
        if t[0] == 'agg' and t[1] == 'adt:std::option::Option:1' and len(t[2]) == 1:
            return canon_term(t[2][0])
        return tuple(canon_term(x) for x in t)
    return t


def canon_a(at):
    op, a, b = at
    if op in ('<', '<=', '==', '!='):
        return canon_atom(op, norm(canon_term(a)), norm(canon_term(b)))
    return at


def debug_assertions(F):
    """-> [(bb of the inner switch, asserted atoms (conjunction), line, macro)]"""
    F.dom()
    out = []
    for bi, b in enumerate(F.blocks):
        if bi not in F.reach:
            continue
        t = b['t']
        if t['k'] != 'switch' or bi in F.const_switch:
            continue
        ms = t.get('macros', [])
        if bi not in F.debug_switches():
            continue
        # which arm panics?
        arms = [(int(v), to) for v, to in t['arms']]
        if len(arms) != 1:
            continue
        f_to, t_to = arms[0][1], t['else']
        d = norm(F.operand_term(t['d']))
        if _leads_to_panic(F, f_to) and not _leads_to_panic(F, t_to):
            asserted = flatten_conj([one_atom(term_atoms(d))])
        elif _leads_to_panic(F, t_to) and not _leads_to_panic(F, f_to):
            asserted = flatten_conj([neg_atom(one_atom(term_atoms(d)))])
        else:
            continue
        out.append((bi, asserted, t.get('line', ''), 'debug_assert'))
    return out


def _leads_to_panic(F, bb, depth=0):
    seen = set()
    cur = bb
    for _ in range(12):
        if cur in seen:
            return False
        seen.add(cur)
        t = F.blocks[cur]['t']
        if t['k'] == 'call' and t['to'] < 0:
            return True
        if t['k'] == 'call' and 'fn' in t['f'] and ('panic' in t['f']['fn']['path'] or 'assert_failed' in t['f']['fn']['path']):
            return True
        if t['k'] == 'goto':
            cur = t['to']
            continue
        if t['k'] == 'call':
            cur = t['to']
            continue
        if t['k'] in ('drop',):
            cur = t['to']
            continue
        return False
    return False


def contract_atoms(FA, base, name, f, spec):
    """Atoms of the documented precondition of `name` (checked twin) instantiated on f's parameters."""
    contract = r_guard.API.get((base, name))
    atoms = []
    if not contract:
        return atoms
    LEN = r_guard.len_term(FA, base)
    for pos, ecls in contract.items():
        cls = r_guard.class_for(ecls, spec)
        P = r_guard.param_term(f, pos)
        if cls == 'index' and LEN is not None:
            atoms.append(('<', P, LEN))
        elif cls == 'prefix' and LEN is not None:
            atoms.append(('<=', P, LEN))
        elif cls == 'sym3':
            atoms.append(('<=', P, ('const', 3)))
    return atoms


def implied_by(d, A):
    """d follows from a conjunct of A (same terms, weaker relation), or is a pure constant relation."""
    op, a, b = d
    for op2, a2, b2 in A:
        if (a, b) == (a2, b2):
            if op == op2:
                return True
            if op == '<=' and op2 in ('<', '=='):
                return True
            if op == '!=' and op2 == '<':
                return True
        # x < 4  <=>  x <= 3
        if a == a2 and b[:1] == ('const',) and b2[:1] == ('const',):
            if op == '<' and op2 == '<=' and b[1] >= b2[1] + 1:
                return True
            if op == '<=' and op2 == '<=' and b[1] >= b2[1]:
                return True
            if op == '<=' and op2 == '<' and b[1] >= b2[1] - 1:
                return True
            if op == '<' and op2 == '<' and b[1] >= b2[1]:
                return True
    return False


def rule_DA(FA):
    out = []
    for f in FA.lib_fns(include_closures=False):
        base = f.get('_base', '')
        for spec in FA.specs(f):
            F = FA.fn(f, spec)
            das = debug_assertions(F)
            if not das:
                continue
            params = [r_guard.param_term(f, k) for k in range(1, f['argc'])]
            # oracle: documented contract of the checked twin + its actual accept condition
            A = []
            twin = None
            if f['name'].endswith('_unchecked'):
                tname = f['name'][:-len('_unchecked')]
                cands = [g for g in FA.by_base_name.get((base, tname), []) if g['impl_trait'] == f['impl_trait']]
                if cands:
                    twin = cands[0]
                    A += contract_atoms(FA, base, tname, f, spec)
                    for tspec in FA.specs(twin):
                        if any(spec.get(k, v) != v for k, v in tspec.items()):
                            continue
                        for sk, atoms, val, where, g in r_guard.conditions_for_entry(FA, twin, tspec):
                            A += [map_atom(a, lambda t_: r_guard._replace_params(t_, twin, f)) for a in atoms if a[0] in ('<', '<=', '==', '!=')]
            # every quad-symbol parameter (u8) of a quad structure has the trait-level contract `<= 3`
            # (not the builder: push / extend are documented to keep the two low bits of ANY value)
            total = 'QVectorBuilder' in f['path'] or f['name'] in ('push', 'extend', 'from_iter')
            for k in range(1, f['argc']):
                if f['locals'][k + 1] == 'u8' and ('qvector' in f['path']) and not total:
                    A.append(('<=', r_guard.param_term(f, k), ('const', 3)))
            Ac = [canon_a(a) for a in A]
            for bi, asserted, line, macro in das:
                for d in asserted:
                    if d[0] not in ('<', '<=', '==', '!='):
                        out.append(Inst('R-DA', 'R-DA|%s%s|%s' % (fn_key(f), spec_key(spec), fmt_atom(d)[:80]), 'note', line,
                                        'assertion shape not classified', ['C10'], nontrivial=False))
                        continue
                    dc = canon_a(d)
                    key = 'R-DA|%s%s|%s' % (fn_key(f), spec_key(spec), fmt_atom(dc)[:90])
                    ment = [p for p in params if contains(dc[1], p) or contains(dc[2], p)]
                    props = ['C10'] + (['C04'] if not f['unsafe'] else [])
                    if dc in Ac or implied_by(dc, Ac):
                        out.append(Inst('R-DA', key, 'ok', line, 'assertion equals / follows from the documented precondition', props,
                                        sample={'assertion': fmt_atom(dc), 'precondition': [fmt_atom(a) for a in Ac][:6]}))
                    elif neg_atom(dc) in Ac or implied_by(neg_atom(dc), Ac):
                        out.append(Inst('R-DA', key, 'violation', line,
                                        'debug assertion `%s` is the NEGATION of the precondition conjunct `%s`: every valid call panics '
                                        'under debug assertions' % (fmt_atom(dc), fmt_atom(neg_atom(dc))), props,
                                        sample={'assertion': fmt_atom(dc), 'precondition': [fmt_atom(a) for a in Ac][:6]}))
                    elif ment and twin is not None:
                        out.append(Inst('R-DA', key, 'violation', line,
                                        'debug assertion `%s` constrains an argument beyond the documented precondition {%s}: some valid '
                                        'calls panic only in builds with debug assertions' % (fmt_atom(dc), '; '.join(fmt_atom(a) for a in Ac) or 'none'), props,
                                        sample={'assertion': fmt_atom(dc), 'precondition': [fmt_atom(a) for a in Ac][:6]}))
                    elif ment and total and not f['unsafe'] and (f['exported'] or f['pub']) and all(x[:1] in (('param',), ('const',)) or x in ment for x in (dc[1], dc[2])):
                        out.append(Inst('R-DA', key, 'violation', line,
                                        'debug assertion `%s` on an argument of `%s`, which is documented to accept every value (it keeps the two low bits): such values panic in builds with debug assertions only' % (
                                            fmt_atom(dc), f['name']), props + ['C13']))
                    else:
                        out.append(Inst('R-DA', key, 'note', line, 'internal sanity assertion (no documented precondition to compare with)',
                                        props, nontrivial=False))
    return out


# ---------------------------------------------------------------- R-DBG

def _callee_multiset(FA, f, skip_debug):
    c = collections.Counter()
    for b in f['blocks']:
        t = b['t']
        if t['k'] == 'call' and 'fn' in t['f']:
            ms = t.get('macros', [])
            if skip_debug and any(m.startswith('debug_assert') for m in ms):
                continue
            fn = t['f']['fn']
            if 'panic' in fn['path'] or 'assert_failed' in fn['path']:
                continue
            c[short_callee(fn)] += 1
    return c


def rule_DBG(facts):
    """Configurations `default` (debug assertions + overflow checks) and `rel` (neither) must contain the
    same functions calling the same callees, once debug_assert!-expanded code is removed."""
    out = []
    D, R = facts['default'], facts['rel']
    props = ['C10', 'C04']
    dset = {f['path'] for f in D.lib_fns(include_derived=True)}
    rset = {f['path'] for f in R.lib_fns(include_derived=True)}
    only = sorted(dset ^ rset)
    if only:
        out.append(Inst('R-DBG', 'R-DBG|functions|' + only[0], 'violation', '', 'function exists in only one build profile: %s' % ', '.join(only[:5]), props))
    n = 0
    for p in sorted(dset & rset):
        fd, fr = D.fns[p], R.fns[p]
        if fd['derived']:
            continue
        cd = _callee_multiset(D, fd, True)
        cr = _callee_multiset(R, fr, True)
        n += 1
        if cd != cr:
            diff = sorted(((cd - cr) + (cr - cd)).keys())
            out.append(Inst('R-DBG', 'R-DBG|%s' % fn_key(fd), 'violation', fd['span'],
                            'code other than assertions differs between builds with and without debug assertions: %s' % ', '.join(diff[:6]), props,
                            sample={'only_debug': sorted((cd - cr).keys()), 'only_release': sorted((cr - cd).keys())}))
        # cfg!(debug_assertions) outside assertion macros
        for b in fd['blocks']:
            t = b['t']
            if t['k'] == 'switch' and 'cfg' in t.get('macros', []) and not any(m.startswith('debug_assert') or m.startswith('assert') for m in t['macros']):
                out.append(Inst('R-DBG', 'R-DBG|%s|cfg!' % fn_key(fd), 'violation', t.get('line', ''),
                                'branch on cfg!(..) outside an assertion macro', props))
    out.append(Inst('R-DBG', 'R-DBG|compared', 'ok', '', '%d function bodies compared between configurations default and rel' % n, props,
                    sample={'functions_compared': n}))
    return out
