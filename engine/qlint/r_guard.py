"""R-G (guard dominates every accepting return / unchecked call), R-SIB (siblings validate
identically), R-TW (checked/unchecked twins compute the same value), R-UNS (unchecked API is unsafe).

Contract classes (from the trait documentation in src/lib.rs and the property statements):
  index   P <  LEN(self)          get-like
  prefix  P <= LEN(self)          rank-like
  sym3    P <= 3                  quad symbol
  symT    P <= X, X a stored element-typed term of self (largest symbol)
  coded   idx(P) < len(X) and X[idx(P)].f != 0 for one self table X (symbol has a code)
  occ     P <  COUNT              select-like: strict upper bound by a term not depending on P
LEN(self) is the summary of the type's own `len()` (so `self.n`, `self.len()`, `self.bv.len()` agree).
"""
import collections
import re

from .core import *
from .report import Inst

# (base type, method) -> {arg position (0 = self): class}; spec-conditional classes as dict on const value
API = {
    ('quadwt::QWaveletTree', 'get'): {1: 'index'},
    ('quadwt::QWaveletTree', 'rank'): {1: 'symT', 2: 'prefix'},
    ('quadwt::QWaveletTree', 'rank_prefetch'): {1: 'symT', 2: 'prefix'},
    ('quadwt::QWaveletTree', 'select'): {1: 'symT'},
    ('quadwt::huffqwt::HuffQWaveletTree', 'get'): {1: 'index'},
    ('quadwt::huffqwt::HuffQWaveletTree', 'rank'): {1: 'coded', 2: 'prefix'},
    ('quadwt::huffqwt::HuffQWaveletTree', 'rank_prefetch'): {1: 'coded', 2: 'prefix'},
    ('quadwt::huffqwt::HuffQWaveletTree', 'select'): {1: 'coded'},
    ('binwt::WaveletTree', 'get'): {1: 'index'},
    ('binwt::WaveletTree', 'rank'): {1: {'COMPRESSED': {False: 'symT', True: 'coded'}}, 2: 'prefix'},
    ('binwt::WaveletTree', 'select'): {1: {'COMPRESSED': {False: 'symT', True: 'coded'}}},
    ('qvector::QVector', 'get'): {1: 'index'},
    ('qvector::rs_qvector::RSQVector', 'get'): {1: 'index'},
    ('qvector::rs_qvector::RSQVector', 'rank'): {1: 'sym3', 2: 'prefix'},
    ('qvector::rs_qvector::RSQVector', 'select'): {1: 'sym3', 2: 'occ'},
    ('qvector::rs_qvector::RSQVector', 'occs'): {1: 'sym3'},
    ('qvector::rs_qvector::RSQVector', 'occs_smaller'): {1: 'sym3'},
    ('bitvector::BitVector', 'get'): {1: 'index'},
    ('bitvector::BitVectorMut', 'get'): {1: 'index'},
    ('bitvector::BitVector', 'get_bits'): {1: 'window'},
    ('bitvector::BitVectorMut', 'get_bits'): {1: 'window'},
    ('bitvector::rs_narrow::RSNarrow', 'get'): {1: 'index'},
    ('bitvector::rs_narrow::RSNarrow', 'rank1'): {1: 'prefix'},
    ('bitvector::rs_narrow::RSNarrow', 'select1'): {1: 'occ1'},
    ('bitvector::rs_narrow::RSNarrow', 'select0'): {1: 'occ0'},
    ('bitvector::rs_wide::RSWide', 'get'): {1: 'index'},
    ('bitvector::rs_wide::RSWide', 'rank1'): {1: 'prefix'},
    ('bitvector::rs_wide::RSWide', 'select1'): {1: 'occ1'},
    ('bitvector::rs_wide::RSWide', 'select0'): {1: 'occ0'},
    ('darray::DArray', 'get'): {1: 'index'},
    ('darray::DArray', 'select1'): {1: 'occ1'},
    ('darray::DArray', 'select0'): {1: 'occ0'},
}

# which properties an API entry serves
PROPS_OF_BASE = {
    'quadwt::QWaveletTree': ['C01', 'C04', 'C10'],
    'quadwt::huffqwt::HuffQWaveletTree': ['C02', 'C04', 'C10'],
    'binwt::WaveletTree': ['C03', 'C04', 'C10'],
    'qvector::QVector': ['C13', 'C04', 'C10', 'C05'],
    'qvector::rs_qvector::RSQVector': ['C05', 'C04', 'C10'],
    'bitvector::BitVector': ['C08', 'C04', 'C10'],
    'bitvector::BitVectorMut': ['C08', 'C04', 'C10'],
    'bitvector::rs_narrow::RSNarrow': ['C06', 'C04', 'C10'],
    'bitvector::rs_wide::RSWide': ['C06', 'C04', 'C10'],
    'darray::DArray': ['C07', 'C04', 'C10'],
}

SELF = ('param', 'self')


def find_method(FA, base, name):
    cands = [f for f in FA.by_base_name.get((base, name), []) if not f['derived']]
    return cands


def len_term(FA, base, _depth=0):
    """Summary of `len()` of a type, over ('param','self').  A type without its own `len()` takes the
    length of its (single) component that has one (RSNarrow / RSWide wrap a BitVector)."""
    for f in find_method(FA, base, 'len'):
        if f['impl_trait'] and 'Iterator' in f['impl_trait']:
            continue
        s = summary(FA, f)
        if s is not None:
            return subst(s, f, [SELF])
        return ('call', strip_generics(f['path']), (SELF,))
    adt = FA.adts.get(base)
    if adt is not None and _depth < 2:
        cands = []
        for fld in adt['fields']:
            fb = base_type(fld['ty'])
            if fb in FA.adts and fb != base:
                lt = len_term(FA, fb, _depth + 1)
                if lt is not None:
                    cands.append(_replace(lt, SELF, ('field', SELF, fld['name'])))
        if len(cands) == 1:
            return cands[0]
    return None


def _replace(t, old, new):
    if t == old:
        return new
    if isinstance(t, tuple):
        return tuple(_replace(x, old, new) for x in t)
    return t


def param_term(f, pos):
    """Term of the argument at position `pos` (0 = self)."""
    return ('param', f['names'].get(str(pos + 1), '_%d' % (pos + 1)))


def accept_sites(FA, F):
    """Program points at which an Option-returning function commits to an answer.
    Yields (kind, bb, payload): kind 'some' (payload = value term), 'deleg' (payload = call terminator)."""
    out = []
    F.dom()
    for bi, b in enumerate(F.blocks):
        if bi not in F.reach:
            continue
        for s in b['s']:
            if 'lhs' not in s:
                continue
            if s['lhs']['l'] == 0 and not s['lhs']['proj']:
                rv = s['rv']
                if rv['k'] == 'agg' and rv['kind'].get('adt') == 'std::option::Option':
                    if rv['kind']['vi'] == 1:
                        out.append(('some', bi, norm(F.operand_term(rv['ops'][0]))))
                elif rv['k'] == 'use' and 'p' in rv['a'] and not rv['a']['p']['proj']:
                    l = rv['a']['p']['l']
                    ds = [d for d in F.defs.get(l, []) if d[0] in F.reach]
                    for d in ds:
                        if d[1] == 'call':
                            out.append(('deleg', d[0], d[2]))
                        elif d[1] == 'assign' and d[2]['k'] == 'agg' and d[2]['kind'].get('adt') == 'std::option::Option' \
                                and d[2]['kind']['vi'] == 1:
                            out.append(('some', d[0], norm(F.operand_term(d[2]['ops'][0]))))
        t = b['t']
        if t['k'] == 'call' and t['dest']['l'] == 0 and not t['dest']['proj'] and 'fn' in t['f']:
            fn = t['f']['fn']
            if fn['trait'] == 'std::ops::FromResidual':
                continue  # `?` propagating None
            out.append(('deleg', bi, t))
    return out


def conditions_for_entry(FA, f, spec, depth=0):
    """List of (site description, atoms, value term or None, where) for every accepting return of f,
    following delegation into private crate helpers and `bool::then` closures."""
    F = FA.fn(f, spec)
    res = []
    for kind, bi, payload in accept_sites(FA, F):
        cond = site_condition(FA, F, bi)
        where = _line_of(F, bi)
        if kind == 'some':
            res.append(('some', cond, payload, where, None))
            continue
        t = payload
        fn = t['f']['fn']
        args = [norm(F.operand_term(a)) for a in t['args']]
        if fn['name'] in ('then', 'then_some') and fn['path'].split('::')[0] in ('core', 'std', 'bool') and 'bool' in fn['path']:
            recv = args[0]
            c2 = cond + value_true_atoms(F, t['args'][0])
            val = None
            if len(args) > 1 and isinstance(args[1], tuple) and args[1][0] == 'agg' and args[1][1].startswith('closure:'):
                cf = FA.fns.get(args[1][1][len('closure:'):])
                if cf is not None:
                    CF = FA.fn(cf, {k: v for k, v in (spec or {}).items()})
                    val = subst_upvars(norm(CF.local_term(0)), list(args[1][2]))
                    val = norm(val)
            elif len(args) > 1:
                val = args[1]
            res.append(('then', c2, val, where, None))
            continue
        cands = FA.resolve(fn)
        if not cands:
            # std combinators (`cond.then_some(i).map(|i| ..)`, `helper(i).map(..)`, `Some(i).filter(..)`): the Option algebra
            # gives the conditions under which the result is Some and its payload
            view = opt_view(FA, norm(F.call_term(t)), spec)
            if view is not None:
                for va, vp in view:
                    res.append(('some', cond + expand_predicates(FA, va, 0, spec), vp, where, None))
                continue
        if len(cands) == 1 and not cands[0]['unsafe'] and depth < 2 and cands[0]['path'] != f['path']:
            g = cands[0]
            if g['name'] == f['name'] and fn['trait'] and len(args) >= 1 and args[0] != SELF:
                # wrapper delegation to the same-named method of a component
                res.append(('wrapper', cond, ('call', short_callee(fn), tuple(args)), where, g))
                continue
            # private helper: descend with the caller's terms substituted for its parameters
            gspec = {}
            gnames = FA.used_const_params(g)
            gargs_generic = fn.get('gargs', [])
            # const generic arguments of the helper that are literals at the call site
            allg = [x['name'] for x in g.get('generics', [])]
            # rustc lists parent generics first in gargs; generics() lists own first then parent
            own = [x for x in g.get('generics', [])]
            for gs in FA.specs(g):
                ok = True
                for cname, cval in gs.items():
                    lit = _generic_literal(g, fn, cname)
                    if lit is not None and lit != cval:
                        ok = False
                    if lit is None and cname in (spec or {}) and spec[cname] != cval:
                        ok = False
                if not ok:
                    continue
                for sk, c2, val, w2, g2 in conditions_for_entry(FA, g, gs, depth + 1):
                    c3 = [map_atom(a, lambda t_: subst(t_, g, args)) for a in c2]
                    v3 = norm(subst(val, g, args)) if val is not None else None
                    res.append((sk, cond + c3, v3, w2, g2))
            continue
        res.append(('deleg?', cond, ('call', short_callee(fn), tuple(args)), where, None))
    return res


def _generic_literal(g, callee_fact, cname):
    """Value of const generic `cname` of helper g at this call site if it is a literal there
    (generics are emitted in rustc's argument order: parents first, then own)."""
    names = [x['name'] for x in g.get('generics', []) if x['kind'] != 'lifetime']
    gargs = [a for a in callee_fact.get('gargs', []) if not a.startswith("'")]
    if len(names) != len(gargs) or cname not in names:
        return None
    a = gargs[names.index(cname)]
    if a == 'true':
        return True
    if a == 'false':
        return False
    return None


def _line_of(F, bi):
    b = F.blocks[bi]
    t = b['t']
    if 'line' in t:
        return t['line']
    for s in b['s']:
        if 'line' in s:
            return s['line']
    return F.f['span']


def mentions(t, p):
    return contains(t, p)


def classify(cls, P, atoms, LEN, extra=None):
    """-> (status, explanation, matched atom strings)"""
    atoms = [map_atom(a, canon_opt) if a[0] in ('<', '<=', '==', '!=') else a for a in atoms]
    rel = [a for a in atoms if a[0] in ('<', '<=', '==', '!=') and (mentions(a[1], P) or mentions(a[2], P))]
    shown = [fmt_atom(a) for a in rel]
    if cls in ('index', 'prefix'):
        want = '<' if cls == 'index' else '<='
        if LEN is None:
            return 'violation', 'no len() summary for the receiver type (anchor lost)', shown
        for op, a, b in rel:
            if a == P and b == LEN:
                if op == want:
                    return 'ok', '%s %s %s' % (show(P), op, show(LEN)), shown
                if op in ('<', '<='):
                    kind = 'over-strict (valid argument rejected)' if op == '<' else 'under-strict (one past the end accepted)'
                    return 'violation', 'bound is `%s` but the contract is `%s`: %s' % (op, want, kind), shown
        for op, a, b in rel:
            if a == P and op in ('<', '<='):
                return 'violation', 'argument is bounded by %s, not by the length term %s' % (show(b), show(LEN)), shown
        return 'violation', 'no dominating bound of %s against the length term %s' % (show(P), show(LEN)), shown
    if cls == 'sym3':
        for op, a, b in rel:
            if a == P and b[0] == 'const':
                if (op == '<=' and b[1] == 3) or (op == '<' and b[1] == 4):
                    return 'ok', fmt_atom((op, a, b)), shown
                return 'violation', 'quad symbol bound %s is not `<= 3`' % fmt_atom((op, a, b)), shown
        return 'violation', 'no dominating test `%s <= 3`' % show(P), shown
    if cls == 'symT':
        for op, a, b in rel:
            if a == P and op in ('<=', '<') and mentions(b, SELF) and not mentions(b, P):
                if op == '<=':
                    return 'ok', fmt_atom((op, a, b)), shown
                return 'violation', 'largest symbol rejected: %s (contract is `<=`)' % fmt_atom((op, a, b)), shown
        return 'violation', 'no dominating upper bound of %s by a stored term' % show(P), shown
    if cls == 'coded':
        idxs = []
        for op, a, b in rel:
            if op == '<' and strip_casts(a) == P or (op == '<' and _narrowing_of(a, P)):
                # b must be len(X)
                X = _len_arg(b)
                if X is not None and mentions(X, SELF):
                    idxs.append((a, X))
        for idx, X in idxs:
            for op, a, b in rel:
                if op == '!=':
                    for side, other in ((a, b), (b, a)):
                        if other == ('const', 0) and _is_table_entry(side, X, idx):
                            return 'ok', 'idx=%s < len(%s) and entry != 0' % (show(idx), show(X)), shown
        if idxs:
            return 'violation', 'table bound found but no `entry(len) != 0` test on the same table', shown
        return 'violation', 'no dominating bound of the symbol index against the code table length', shown
    if cls == 'window':
        # P = start, Q = the next parameter = number of bits: P + Q <= LEN, written with or without the sum
        Q = extra
        if LEN is None or Q is None:
            return 'violation', 'no len() summary / length parameter (anchor lost)', shown
        relq = [a for a in atoms if a[0] in ('<', '<=', '==', '!=') and (mentions(a[1], Q) or mentions(a[2], Q))]
        shown = [fmt_atom(a) for a in rel + relq]
        total = norm(('bin', 'Add', P, Q))
        rest = norm(('bin', 'Sub', LEN, P))
        for op, a, b in rel + relq:
            if a == total and b == LEN:
                if op == '<=':
                    return 'ok', fmt_atom((op, a, b)), shown
                return 'violation', 'window bound `%s` rejects a read that ends exactly at the last bit (contract is `<=`)' % fmt_atom((op, a, b)), shown
        startok = None
        for op, a, b in rel:
            if a == P and b == LEN and op in ('<', '<='):
                startok = op
        for op, a, b in relq:
            if a == Q and b == rest and op in ('<', '<='):
                if startok is None:
                    return 'violation', '`%s` is compared with `%s` but the start is not bounded by the length first (the subtraction can wrap)' % (show(Q), show(rest)), shown
                if op == '<=':
                    return 'ok', '%s %s %s and %s <= %s' % (show(P), startok, show(LEN), show(Q), show(rest)), shown
                return 'violation', 'window bound `%s` rejects a read that ends exactly at the last bit (contract is `<=`)' % fmt_atom((op, a, b)), shown
        return 'violation', 'no dominating test that %s + %s stays within %s' % (show(P), show(Q), show(LEN)), shown
    if cls in ('occ', 'occ1', 'occ0'):
        for op, a, b in rel:
            if a == P and not mentions(b, P) and op in ('<', '<='):
                if op == '<':
                    k = _count_kind(b)
                    want = {'occ1': 'ones', 'occ0': 'zeros'}.get(cls)
                    if want and k and k != want:
                        return 'violation', 'occurrence index of a select%s is bounded by the number of %s (`%s`): wrong operand, valid occurrences are rejected / missing ones accepted' % (
                            cls[-1], k, show(b)[:50]), shown
                    return 'ok', fmt_atom((op, a, b)), shown
                return 'violation', 'occurrence index bound is `<=` (one past the last occurrence accepted)', shown
        return 'violation', 'no dominating strict bound on the occurrence index %s' % show(P), shown
    return 'note', 'unknown class ' + cls, shown


def _count_kind(t, depth=0):
    """'ones' / 'zeros' when the term is recognisably the number of ones (zeros): a call or field whose name says so, or
    `len - <the other kind>`; None when it cannot be told."""
    if not isinstance(t, tuple) or not t or depth > 6:
        return None
    t = strip_casts(t)
    if t[:2] == ('bin', 'Sub'):
        k = _count_kind(t[3], depth + 1)
        return {'ones': 'zeros', 'zeros': 'ones'}.get(k)
    names = []
    for x in subterms(t):
        if isinstance(x, tuple) and x[:1] == ('call',):
            names.append(x[1].split('::')[-1])
        if isinstance(x, tuple) and x[:1] == ('field',):
            names.append(x[2])
    has1 = any('ones' in n for n in names)
    has0 = any('zero' in n for n in names)
    if has1 and not has0:
        return 'ones'
    if has0 and not has1:
        return 'zeros'
    return None


def _narrowing_of(t, P):
    """t is a conversion of P to an index: as_/cast/to_usize-unwrap chains."""
    while isinstance(t, tuple) and t:
        if t == P:
            return True
        if t[0] in ('cast', 'as_'):
            t = t[2]
        elif t[0] == 'call' and len(t[2]) == 1 and any(k in t[1] for k in ('to_usize', 'unwrap', 'as_', 'into', 'try_into', 'from')):
            t = t[2][0]
        elif t[0] == 'variant':
            t = t[1]
        elif t[0] == 'payload':
            t = t[1]
        elif t[0] == 'field' and t[2] == '0':
            t = t[1]
        else:
            return False
    return False


def _len_arg(t):
    if isinstance(t, tuple) and t and t[0] == 'call' and t[1].split('::')[-1] == 'len' and len(t[2]) == 1:
        return strip_unwrap(t[2][0])
    return None


def strip_unwrap(t):
    while isinstance(t, tuple) and t and ((t[0] == 'call' and len(t[2]) == 1 and t[1].split('::')[-1] in ('unwrap', 'as_ref', 'deref', 'as_slice', 'expect', 'unwrap_unchecked'))
                                          or t[0] == 'payload'):
        t = t[2][0] if t[0] == 'call' else t[1]
    if isinstance(t, tuple) and t and t[0] == 'variant':
        t = t[1]
    if isinstance(t, tuple) and t and t[0] == 'field' and t[2] == '0' and isinstance(t[1], tuple) and t[1][0] == 'variant':
        t = t[1][1]
    return t


def _is_table_entry(t, X, idx):
    """t == X[idx].field (through Index::index / get / unwrap)."""
    if not (isinstance(t, tuple) and t and t[0] == 'field'):
        return False
    e = t[1]
    if isinstance(e, tuple) and e and e[0] == 'call' and e[1].split('::')[-1] in ('index', 'get_unchecked') and len(e[2]) == 2:
        return strip_unwrap(e[2][0]) == X and e[2][1] == idx
    if isinstance(e, tuple) and e and e[0] == 'index':
        return strip_unwrap(e[1]) == X and e[2] == idx
    return False


def class_for(entry_cls, spec):
    if isinstance(entry_cls, dict):
        (cname, table), = entry_cls.items()
        if cname in spec:
            return table[spec[cname]]
        return None
    return entry_cls


def _iterator_deps(FA):
    """paths of the checked API methods that `next` / `next_back` of an iterator implementation call (directly)"""
    out = set()
    for f in FA.lib_fns(include_closures=False):
        if f['name'] in ('next', 'next_back', 'nth') and f['impl_trait'].split('::')[-1] in ('Iterator', 'DoubleEndedIterator'):
            for g in FA.with_closures(f):
                out.update(FA.callees_of(g))
    return out


def rule_G(FA):
    """One instance per (API method, specialisation, contract argument, accepting return)."""
    _OPT.fa = FA
    out = []
    it_deps = _iterator_deps(FA)
    for (base, name), contract in sorted(API.items()):
        cands = find_method(FA, base, name)
        props = PROPS_OF_BASE[base]
        if not cands:
            out.append(Inst('R-G', 'R-G|%s::%s|anchor' % (base, name), 'violation', '', 'method not found (anchor lost)', props))
            continue
        f = cands[0]
        if f['path'] in it_deps:
            props = props + ['C12']    # an iterator ends when this checked method answers None: its guard is part of C12
        LEN = len_term(FA, base)
        # make sure const-generic contract parameters are specialised even if unused in the body
        specs = list(FA.specs(f, deep=True))
        for pos, cls in contract.items():
            if isinstance(cls, dict):
                cname = next(iter(cls))
                if all(cname not in s for s in specs):
                    specs = [dict(s, **{cname: v}) for s in specs for v in (False, True)]
        for spec in specs:
            conds = conditions_for_entry(FA, f, spec)
            fkey = '%s::%s%s' % (base, name, spec_key(spec))
            if not conds:
                out.append(Inst('R-G', 'R-G|%s|no-accepting-return' % fkey, 'note', f['span'],
                                'never returns Some in this specialisation (nothing to guard)', props, nontrivial=False))
                continue
            for pos, ecls in sorted(contract.items()):
                cls = class_for(ecls, spec)
                if cls is None:
                    continue
                P = param_term(f, pos)
                worst = None
                for sk, atoms, val, where, g in conds:
                    if sk == 'wrapper':
                        # delegation to the same-named method of a component with the same arguments
                        gbase = g['_base']
                        gcontract = API.get((gbase, g['name']))
                        gargs = val[2]
                        ok = gcontract is not None and class_for(gcontract.get(pos), spec) == cls and len(gargs) > pos and gargs[pos] == P and mentions(gargs[0], SELF)
                        st, expl, shown = ('ok', 'delegates to %s::%s with the same argument' % (gbase, g['name']), []) if ok else \
                            ('violation', 'delegates to %s::%s which has no matching contract for this argument' % (gbase, g['name']), [])
                    elif sk == 'deleg?':
                        # the answer is computed by a call the rule cannot open (`iter.try_fold(..)`): the conditions under which
                        # that call is reached still have to contain the guard; if they do not, the callee may check it: no verdict
                        extra = param_term(f, pos + 1) if cls == 'window' and pos + 1 < f['argc'] else None
                        st, expl, shown = classify(cls, P, atoms, LEN, extra)
                        if st != 'ok':
                            foreign = isinstance(val, tuple) and val[:1] == ('call',) and not any(
                                strip_generics(g2['path']) == val[1] for g2 in FA.fns.values())
                            if foreign:
                                st, expl = 'note', 'answer produced by %s, which the rule cannot follow' % show(val)[:100]
                            else:
                                st, expl, shown = 'violation', 'answer produced by %s which the rule cannot follow' % show(val), []
                    else:
                        extra = param_term(f, pos + 1) if cls == 'window' and pos + 1 < f['argc'] else None
                        st, expl, shown = classify(cls, P, atoms, LEN, extra)
                    if st == 'violation' and expl.startswith('no dominating') and sk in ('some', 'then'):
                        # the argument IS validated, by a predicate the rule cannot interpret (Option combinators, foreign
                        # helpers): no verdict rather than an alarm
                        opaque = [a for a in atoms if a[0] in ('true', 'is') and isinstance(a[1], tuple)
                                  and any(isinstance(x, tuple) and x and x[0] == 'call' for x in subterms(a[1])) and mentions(a[1], P)]
                        if opaque:
                            st = 'note'
                            expl = 'argument is validated by a predicate the rule cannot interpret: %s' % fmt_atom(opaque[0])[:120]
                    code = ''
                    if st not in ('ok', 'note'):
                        code = '|over-strict' if ('rejects a read' in expl or 'over-strict' in expl or 'largest symbol rejected' in expl) else \
                            '|under-strict' if ('under-strict' in expl or 'one past' in expl) else '|unguarded' if expl.startswith('no dominating') else '|other'
                    inst = Inst('R-G', 'R-G|%s|%s:#%d%s' % (fkey, cls, pos, code), st, where, expl, props,
                                sample={'accept_condition': [fmt_atom(a) for a in atoms], 'class': cls, 'argument': show(P)})
                    if st == 'violation':
                        worst = inst
                        break
                    if st == 'note' or worst is None:
                        worst = inst if (worst is None or worst.status == 'ok') else worst
                out.append(worst)
    return out


# ---------------------------------------------------------------- R-SIB

SIB_GROUPS = [
    # (group name, props, [(base, method, argpos)...], other-arg filter)
    ('QWaveletTree symbol', ['C01', 'C09'], [('quadwt::QWaveletTree', 'rank', 1), ('quadwt::QWaveletTree', 'rank_prefetch', 1), ('quadwt::QWaveletTree', 'select', 1)]),
    ('HuffQWaveletTree symbol', ['C02', 'C09'], [('quadwt::huffqwt::HuffQWaveletTree', 'rank', 1), ('quadwt::huffqwt::HuffQWaveletTree', 'rank_prefetch', 1), ('quadwt::huffqwt::HuffQWaveletTree', 'select', 1)]),
    ('WaveletTree symbol', ['C03'], [('binwt::WaveletTree', 'rank', 1), ('binwt::WaveletTree', 'select', 1)]),
    ('RSQVector symbol', ['C05', 'C04'], [('qvector::rs_qvector::RSQVector', 'rank', 1), ('qvector::rs_qvector::RSQVector', 'select', 1), ('qvector::rs_qvector::RSQVector', 'occs', 1), ('qvector::rs_qvector::RSQVector', 'occs_smaller', 1)]),
    ('QWaveletTree position', ['C01', 'C09'], [('quadwt::QWaveletTree', 'rank', 2), ('quadwt::QWaveletTree', 'rank_prefetch', 2)]),
    ('HuffQWaveletTree position', ['C02', 'C09'], [('quadwt::huffqwt::HuffQWaveletTree', 'rank', 2), ('quadwt::huffqwt::HuffQWaveletTree', 'rank_prefetch', 2)]),
    ('BitVector/BitVectorMut get', ['C08'], [('bitvector::BitVector', 'get', 1), ('bitvector::BitVectorMut', 'get', 1)]),
    ('BitVector/BitVectorMut get_bits', ['C08'], [('bitvector::BitVector', 'get_bits', None), ('bitvector::BitVectorMut', 'get_bits', None)]),
    ('RSNarrow/RSWide rank1', ['C06'], [('bitvector::rs_narrow::RSNarrow', 'rank1', 1), ('bitvector::rs_wide::RSWide', 'rank1', 1)]),
    ('RSNarrow/RSWide get', ['C06'], [('bitvector::rs_narrow::RSNarrow', 'get', 1), ('bitvector::rs_wide::RSWide', 'get', 1)]),
]


def _abstract(atom, f, pos):
    """Rename parameters positionally so that siblings with different parameter names compare equal."""
    ren = {}
    for k, v in f['names'].items():
        k = int(k)
        if 1 <= k <= f['argc']:
            ren[v] = '$%d' % (k - 1) if k > 1 else 'self'

    def go(x):
        if isinstance(x, tuple):
            if x and x[0] == 'param' and x[1] in ren:
                return ('param', ren[x[1]])
            return tuple(go(y) for y in x)
        return x
    return map_atom(atom, go)


def sib_signature(FA, base, name, pos, spec_filter=None):
    """{spec_key: sorted atom strings constraining the argument at `pos` (all params if None)}"""
    sigs = {}
    cands = find_method(FA, base, name)
    if not cands:
        return None, None
    f = cands[0]
    for spec in FA.specs(f, deep=True):
        conds = conditions_for_entry(FA, f, spec)
        per_site = []
        for sk, atoms, val, where, g in conds:
            sel = []
            for a in atoms:
                if a[0] not in ('<', '<=', '==', '!='):
                    continue
                if pos is None:
                    ps = [param_term(f, k) for k in range(1, f['argc'])]
                    if any(mentions(a[1], p) or mentions(a[2], p) for p in ps):
                        sel.append(fmt_atom(_abstract(a, f, pos)))
                else:
                    P = param_term(f, pos)
                    others = [param_term(f, k) for k in range(1, f['argc']) if k != pos]
                    if (mentions(a[1], P) or mentions(a[2], P)) and not any(mentions(a[1], o) or mentions(a[2], o) for o in others):
                        sel.append(fmt_atom(_abstract(a, f, pos)).replace('$%d' % (pos - 0), '$arg'))
            per_site.append(tuple(sorted(set(sel))))
        # all accepting returns must agree; take the weakest (intersection) as the signature
        if per_site:
            common = set(per_site[0])
            for s in per_site[1:]:
                common &= set(s)
            sigs[spec_key({k: v for k, v in spec.items() if k != 'WITH_PREFETCH_SUPPORT'})] = tuple(sorted(common))
        else:
            sigs[spec_key(spec)] = None
    return sigs, f


def rule_SIB(FA):
    _OPT.fa = FA
    out = []
    for gname, props, members in SIB_GROUPS:
        sigs = []
        missing = False
        for base, name, pos in members:
            s, f = sib_signature(FA, base, name, pos)
            if s is None:
                out.append(Inst('R-SIB', 'R-SIB|%s|%s::%s anchor' % (gname, base, name), 'violation', '', 'method not found (anchor lost)', props))
                missing = True
                continue
            sigs.append((base, name, s, f))
        if missing or not sigs:
            continue
        # compare per specialisation key present in all members
        keys = set()
        for _, _, s, _ in sigs:
            keys |= set(s.keys())
        for k in sorted(keys):
            vals = []
            for base, name, s, f in sigs:
                # a member that does not depend on the const generic has a single '' entry
                v = s.get(k, s.get('', None) if '' in s else None)
                vals.append((base, name, v, f))
            # reference = the most common signature (ties: the first member's)
            counts = collections.Counter(v for _, _, v, _ in vals if v is not None)
            if not counts:
                continue
            best = max(counts.items(), key=lambda kv: (kv[1], kv[0] == vals[0][2]))[0]
            refm = next(m for m in vals if m[2] == best)
            for base, name, v, f in vals:
                key = 'R-SIB|%s%s|%s::%s' % (gname, k, base.split('::')[-1], name)
                if v == best:
                    out.append(Inst('R-SIB', key, 'ok', f['span'], 'same validation atoms as its siblings', props,
                                    nontrivial=bool(v), sample={'atoms': list(v)}))
                else:
                    key = key + '|' + '; '.join(_stable_atoms(FA, base, sorted(set(v or ()) ^ set(best))))
                    out.append(Inst('R-SIB', key, 'violation', f['span'],
                                    'validates differently from its siblings: accepts under {%s}; %s::%s accepts under {%s}' % (
                                        '; '.join(v) if v is not None else '<no accepting return>',
                                        refm[0].split('::')[-1], refm[1], '; '.join(best)), props,
                                    sample={'reference': list(best), 'this': list(v or [])}))
    return out


def _stable_atoms(FA, base, atoms):
    """Atom strings for an instance key: private field names are replaced by their position in the struct, so renaming a
    field does not turn a listed finding into a new one."""
    adt = FA.adts.get(base) or {}
    idx = {x['name']: i for i, x in enumerate(adt.get('fields', []))}
    return sorted(re.sub(r'self\.([A-Za-z_]\w*)', lambda m: 'self.#%d' % idx[m.group(1)] if m.group(1) in idx else m.group(0), a) for a in atoms)


# ---------------------------------------------------------------- R-TW

TW_PROPS = {
    'quadwt::QWaveletTree': ['C01', 'C10'], 'quadwt::huffqwt::HuffQWaveletTree': ['C02', 'C10'],
    'binwt::WaveletTree': ['C03', 'C10'], 'qvector::QVector': ['C13', 'C10'],
    'qvector::rs_qvector::RSQVector': ['C05', 'C10'], 'bitvector::BitVector': ['C08', 'C10'],
    'bitvector::BitVectorMut': ['C08', 'C10'], 'bitvector::rs_narrow::RSNarrow': ['C06', 'C10'],
    'bitvector::rs_wide::RSWide': ['C06', 'C10'], 'darray::DArray': ['C07', 'C10'],
    'bitvector::DataLine': ['C10'], 'qvector::DataLine': ['C10'], 'Self': ['C06', 'C10'],
}


def _params(f):
    return tuple(param_term(f, k) for k in range(0, f['argc']))


def _is_call_to(t, name, args=None):
    if not (isinstance(t, tuple) and t and t[0] == 'call'):
        return False
    if t[1].split('::')[-1] != name:
        return False
    return args is None or tuple(t[2]) == tuple(args)


def _unwrap_of(t):
    if isinstance(t, tuple) and t and t[0] == 'call' and t[1].split('::')[-1] in ('unwrap', 'expect', 'unwrap_unchecked') and len(t[2]) >= 1:
        return t[2][0]
    return None


import threading


class _TL(threading.local):
    fa = None


_OPT = _TL()   # facts of the rule run in progress (thread-local: the self-test runners analyse several trees in threads)


def _payload(x):
    """payload of Option term x; when the Option algebra knows the single way x is Some, the payload itself"""
    FA = _OPT.fa
    if FA is not None:
        v = opt_view(FA, x)
        if v is not None and len(v) == 1 and not has_unknown(v[0][1]):
            return canon_opt(v[0][1])
    return ('payload', canon_opt(x))


def canon_opt(t):
    """Canonical form of "the payload of an Option": unwrap(x), `x?` and `if let Some(v) = x` agree."""
    if isinstance(t, tuple) and t:
        if t[0] == 'call' and t[1].split('::')[-1] in ('unwrap', 'expect', 'unwrap_unchecked') and len(t[2]) >= 1:
            return _payload(t[2][0])
        if t[0] == 'field' and t[2] == '0' and isinstance(t[1], tuple) and t[1] and t[1][0] == 'variant':
            inner = t[1][1]
            if t[1][2] == 'Continue' and isinstance(inner, tuple) and inner and inner[0] == 'call' and inner[1].split('::')[-1] == 'branch' and inner[2]:
                return _payload(inner[2][0])
            if t[1][2] == 'Some':
                return _payload(inner)
        return tuple(canon_opt(x) for x in t)
    return t


def _same_modulo_option(FA, val, uret_m, spec):
    want = norm(canon_opt(uret_m))
    if has_unknown(want):
        return False
    if norm(canon_opt(val)) == want:
        return True     # the Some payload (already opened by the Option algebra) is the unchecked twin's value
    ov = opt_view(FA, val, spec)
    if not ov:
        return False
    return all(norm(canon_opt(p)) == want for _, p in ov)


def twin_pairs(FA):
    for f in FA.lib_fns(include_closures=False):
        if not f['name'].endswith('_unchecked'):
            continue
        base = f.get('_base', '')
        twin_name = f['name'][:-len('_unchecked')]
        cands = [g for g in FA.by_base_name.get((base, twin_name), []) if g['impl_trait'] == f['impl_trait'] and not g['derived']]
        # the checked / unchecked pairing is a contract of the public API; private helpers that happen to be named alike
        # (`path` / `path_unchecked`) are not twins in that sense
        if cands and (f['exported'] or f['pub']) and (cands[0]['exported'] or cands[0]['pub']):
            yield cands[0], f, base


def rule_TW(FA):
    _OPT.fa = FA
    out = []
    for m, u, base in twin_pairs(FA):
        if base == 'Self':
            continue  # trait defaults: handled below (shape iv)
        props = TW_PROPS.get(base, ['C10'])
        pm = _params(m)
        key = 'R-TW|%s::%s' % (base if base != 'Self' else m['impl_trait'], m['name'])
        if m['argc'] != u['argc']:
            out.append(Inst('R-TW', key, 'violation', m['span'], 'twins take different parameters', props))
            continue
        shapes = set()
        bad = []
        for spec in FA.specs(m):
            conds = conditions_for_entry(FA, m, spec)
            uspecs = [s for s in FA.specs(u) if all(spec.get(k, v) == v for k, v in s.items())] or [{}]
            U = FA.fn(u, uspecs[0])
            uret = norm(U.local_term(0))
            uret_m = _replace_params(uret, u, m)
            if not conds:
                shapes.add('never-some')
                continue
            for sk, atoms, val, where, g in conds:
                if sk in ('some', 'then') and val is not None:
                    val = norm(canon_opt(val))
                if sk in ('some', 'then') and _is_call_to(val, u['name'], pm):
                    shapes.add('i')
                elif sk in ('some', 'then') and _common_worker(FA, val, uret_m, u, m):
                    # (vi) both twins hand over to the same private worker; arguments that differ are computed from the
                    # same parameters (a validated table lookup on one side, the raw lookup on the other)
                    shapes.add('vi')
                elif sk == 'wrapper':
                    # (v) both delegate to the same component: inner.m(P) / inner.m_unchecked(P)
                    inner = val[2][0]
                    if _is_call_to(uret_m, u['name']) and uret_m[2] and uret_m[2][0] == inner and tuple(uret_m[2][1:]) == tuple(val[2][1:]) == pm[1:]:
                        shapes.add('v')
                    else:
                        bad.append((where, 'checked delegates to %s but unchecked returns %s' % (show(val), show(uret_m))))
                else:
                    # (ii)/(iii): unchecked is unwrap(checked(..)) or unwrap(helper(same args))
                    inner = _unwrap_of(uret_m)
                    if inner is not None and _is_call_to(inner, m['name'], pm):
                        shapes.add('ii')
                    elif val is not None and _same_modulo_option(FA, val, uret_m, spec):
                        # (vii) the checked twin returns the unchecked twin's expression through Option combinators
                        # (`opt.as_ref().and_then(|x| self.worker(i, x))` / `self.worker(i, opt.as_ref().unwrap()).unwrap()`)
                        shapes.add('vii')
                    else:
                        bad.append((where, 'accepting return yields %s, which is not %s(%s)' % (
                            show(val) if val is not None else '?', u['name'], ', '.join(show(p) for p in pm))))
            # (iii) detect helper sharing: checked returns helper(args) directly
            if bad:
                F = FA.fn(m, spec)
                sites = accept_sites(FA, F)
                helper_calls = [norm(F.call_term(t)) for k, bi, t in sites if k == 'deleg']
                inner = _unwrap_of(uret_m)
                if inner is not None and helper_calls and all(canon_opt(h) == canon_opt(inner) for h in helper_calls):
                    shapes.add('iii')
                    bad = []
                elif inner is not None and _is_call_to(inner, m['name'], pm):
                    shapes.add('ii')
                    bad = []
        if bad:
            live = m['path'] in FA.reachable_from_exported()
            out.append(Inst('R-TW', key, 'violation' if live else 'note', bad[0][0],
                            bad[0][1] + ('' if live else ' (dead code: not reachable from the exported API)'), props,
                            sample={'unchecked_returns': show(uret_m)}))
        else:
            out.append(Inst('R-TW', key, 'ok', m['span'], 'shape ' + '/'.join(sorted(shapes)), props,
                            sample={'shapes': sorted(shapes)}))
    # (iv) trait defaults rank0 / rank0_unchecked
    r0 = FA.fns.get('RankBin::rank0') or next((g for p_, g in FA.fns.items() if p_.endswith('::RankBin::rank0')), None)
    r0u = FA.fns.get('RankBin::rank0_unchecked') or next((g for p_, g in FA.fns.items() if p_.endswith('::RankBin::rank0_unchecked')), None)
    props = ['C06', 'C10']
    if r0 is None or r0u is None:
        out.append(Inst('R-TW', 'R-TW|RankBin::rank0 defaults', 'violation', '', 'default methods not found (anchor lost)', props))
    else:
        F = FA.fn(r0)
        conds = conditions_for_entry(FA, r0, {})
        P = _params(r0)
        ok1 = False
        detail = ''
        for sk, atoms, val, where, g in conds:
            # Some(i - k) where k is the payload of rank1(self, i)
            if val is None:
                continue
            val = norm(canon_opt(val))
            if val[0] == 'bin' and val[1] == 'Sub' and val[2] == P[1]:
                k = val[3]
                src = [x for x in subterms(k) if _is_call_to(x, 'rank1', P)]
                # when the Option algebra has opened `rank1` (a single implementation is known), its payload reads
                # `rank1_unchecked(self, i)` under rank1's own guard: the same thing, provided there IS a guard
                opened = [x for x in subterms(k) if _is_call_to(x, 'rank1_unchecked', P)]
                ok1 = bool(src) or (bool(opened) and bool(atoms))
            detail = show(val)
        U = FA.fn(r0u)
        ur = norm(U.local_term(0))
        PU = _params(r0u)
        ok2 = ur[0] == 'bin' and ur[1] == 'Sub' and ur[2] == PU[1] and _is_call_to(ur[3], 'rank1_unchecked', PU)
        st = 'ok' if (ok1 and ok2) else 'violation'
        out.append(Inst('R-TW', 'R-TW|RankBin::rank0 defaults', st, r0['span'],
                        'rank0 = i - rank1(i): %s ; rank0_unchecked = %s' % (detail, show(ur)), props))
    return out


def _term_params(t):
    return {x for x in subterms(t) if isinstance(x, tuple) and x and x[0] == 'param'}


def _common_worker(FA, val, uret, u, m):
    if not (isinstance(val, tuple) and isinstance(uret, tuple) and val[:1] == ('call',) and uret[:1] == ('call',)):
        return False
    if val[1] != uret[1] or len(val[2]) != len(uret[2]):
        return False
    w = val[1].split('::')[-1]
    if w in (u['name'], m['name']):
        return False
    tgt = [g for g in FA.fns.values() if g['name'] == w and g['kind'] != 'Closure' and strip_generics(g['path']).endswith(val[1].split('::', 0)[0].split('::')[-1])]
    if not tgt or any(g['exported'] and not g['unsafe'] for g in tgt):
        return False
    for x, y in zip(val[2], uret[2]):
        if norm(canon_opt(x)) == norm(canon_opt(y)):
            continue
        px, py = _term_params(x), _term_params(y)
        if not px or px != py:
            return False
    return True


def _replace_params(t, u, m):
    """Express a term over u's parameter names in m's parameter names (positional)."""
    ren = {}
    for k in range(0, u['argc']):
        ren[param_term(u, k)] = param_term(m, k)

    def go(x):
        if isinstance(x, tuple):
            if x in ren:
                return ren[x]
            return tuple(go(y) for y in x)
        return x
    return go(t)


# ---------------------------------------------------------------- R-UNS

def rule_UNS(FA):
    out = []
    props = ['C04', 'C18', 'C10']
    n = 0
    for f in FA.lib_fns(include_closures=False):
        if f['name'].endswith('_unchecked'):
            n += 1
            key = 'R-UNS|%s' % strip_generics(f['path'])
            if f['unsafe']:
                out.append(Inst('R-UNS', key, 'ok', f['span'], 'unsafe fn', props))
            elif not (f['exported'] or f['pub']):
                # a private helper is not part of the contract users see; its unchecked operations are accounted to the
                # safe API functions that reach it (R-INV, R-G)
                out.append(Inst('R-UNS', key, 'note', f['span'], 'private safe helper named *_unchecked', props))
            else:
                out.append(Inst('R-UNS', key, 'violation', f['span'],
                                '`%s` skips validation but is callable from safe code (not `unsafe fn`)' % f['name'], props))
    return out


# ---------------------------------------------------------------- R-CMP

CMP_PROPS = [('qvector::rs_qvector', ['C05', 'C01', 'C04']), ('bitvector::rs_narrow', ['C06']), ('bitvector::rs_wide', ['C06', 'C03']),
             ('darray', ['C07']), ('bitvector', ['C08']), ('quadwt::huffqwt', ['C02']), ('quadwt', ['C01']), ('binwt', ['C03']), ('qvector', ['C13'])]


def rule_CMP(FA):
    """Contradiction rule (Engler): within one function the same two quantities are never compared with two
    different strictnesses (`a < b` in one loop, `a <= b` in its sibling loop).  A two-phase search (coarse
    steps, then linear) must test one predicate; two beliefs about one boundary mean one of them is wrong."""
    out = []
    for f in FA.lib_fns():
        path = fn_key(f)
        props = next((p for pre, p in CMP_PROPS if path.startswith(pre)), None)
        if props is None:
            continue
        for spec in FA.specs(f):
            F = FA.fn(f, spec)
            F.dom()
            seen = collections.defaultdict(list)
            for bi, b in enumerate(F.blocks):
                if bi not in F.reach:
                    continue
                t = b['t']
                if t['k'] != 'switch' or bi in F.const_switch or bi in F.debug_switches():
                    continue
                d = norm(F.operand_term(t['d']))
                for a in term_atoms(d):
                    if a[0] in ('<', '<='):
                        # orientation-independent: record as (x, y, op) with x<y / x<=y; the flipped pair y>x is the same fact
                        seen[(a[1], a[2])].append((a[0], t.get('line', '')))
            for (x, y), ops in seen.items():
                if len(ops) < 2:
                    continue
                kinds = {o for o, _ in ops}
                key = 'R-CMP|%s%s|%s ~ %s' % (path, spec_key(spec), show(x)[:40], show(y)[:40])
                if len(kinds) > 1:
                    out.append(Inst('R-CMP', key, 'violation', ops[0][1],
                                    '`%s` and `%s` are compared %d times in this function, with `<` and with `<=`: the phases of the search disagree about the boundary' % (
                                        show(x)[:60], show(y)[:60], len(ops)), props, sample={'comparisons': ops}))
                else:
                    out.append(Inst('R-CMP', key, 'ok', ops[0][1], 'compared %d times, always `%s`' % (len(ops), ops[0][0]), props))
    return out


# ---------------------------------------------------------------- R-SELP

SELP_BASES = {'quadwt::QWaveletTree': ['C01', 'C04'], 'quadwt::huffqwt::HuffQWaveletTree': ['C02', 'C04'], 'binwt::WaveletTree': ['C03', 'C04']}
LEVEL_QUERIES = ('rank', 'rank0', 'rank1', 'select', 'select0', 'select1')


def rule_SELP(FA):
    """`select` of the wavelet trees walks the levels with CHECKED per-level queries and propagates every `None`
    with `?`: an occurrence that exists at a symbol's leaf level need not exist at an ancestor level of the
    level-wise matrix, so an overshoot must stay an overshoot.  No `*_unchecked` rank/select, no unwrap of a
    per-level answer."""
    out = []
    for base, props in SELP_BASES.items():
        cands = [f for f in FA.by_base_name.get((base, 'select'), []) if f['impl_trait'].endswith('SelectUnsigned')]
        if not cands:
            out.append(Inst('R-SELP', 'R-SELP|%s::select' % base, 'violation', '', 'select not found (anchor lost)', props))
            continue
        f = cands[0]
        fi = FA.inlined(f)   # the descent / ascent may live in private helpers
        for spec in FA.specs(f):
          bad = []
          n_checked = 0
          # the passes may live in closures (`levels.iter().rev().try_fold(i, |acc, lvl| ..)`)
          for body in FA.with_closures(fi):
            F = FA.fn(body, spec if body is fi else {k: v for k, v in spec.items() if k in FA.const_params(body)})
            for bi, t in F.calls():
                fn = t['f']['fn']
                nm = fn['name']
                if nm.endswith('_unchecked') and nm[:-len('_unchecked')] in LEVEL_QUERIES and fn['unsafe']:
                    bad.append((t['line'], 'calls `%s` on a level structure' % short_callee(fn)))
                if nm in LEVEL_QUERIES and fn['trait'] and fn['trait'].split('::')[-1] in ('RankQuad', 'SelectQuad', 'RankBin', 'SelectBin') and not t['dest']['proj']:
                    n_checked += 1
                    # the answer must only flow into `?` (Try::branch), never into unwrap/expect/unwrap_or
                    dl = t['dest']['l']
                    users = []
                    for bj, t2 in F.calls():
                        for a in t2['args']:
                            if 'p' in a and a['p']['l'] == dl:
                                users.append(t2['f']['fn']['name'])
                    # results may be merged through a local first (if bit { rank1 } else { rank0 })
                    for b2 in F.blocks:
                        for s2 in b2['s']:
                            rv = s2.get('rv')
                            if rv and rv['k'] == 'use' and 'p' in rv['a'] and rv['a']['p']['l'] == dl and not s2['lhs']['proj']:
                                ml = s2['lhs']['l']
                                for bj, t2 in F.calls():
                                    for a in t2['args']:
                                        if 'p' in a and a['p']['l'] == ml:
                                            users.append(t2['f']['fn']['name'])
                    if any(u in ('unwrap', 'expect', 'unwrap_or', 'unwrap_or_default', 'unwrap_unchecked', 'unwrap_or_else') for u in users):
                        bad.append((t['line'], 'unwraps the answer of the per-level `%s`' % nm))
                    elif 'branch' not in users:
                        bad.append((t['line'], 'does not propagate a None of the per-level `%s` with `?`' % nm))
          key = 'R-SELP|%s::select%s' % (base, spec_key(spec))
          if bad:
              out.append(Inst('R-SELP', key, 'violation', bad[0][0], 'select %s: a missing occurrence no longer stays a None up to the root' % '; '.join(sorted({b for _, b in bad})), props))
          elif n_checked < 2:
              out.append(Inst('R-SELP', key, 'violation', f['span'], 'expected checked per-level rank and select calls, found %d (anchor lost)' % n_checked, props))
          else:
              out.append(Inst('R-SELP', key, 'ok', f['span'], '%d per-level queries, all checked and propagated with `?`' % n_checked, props))
    return out
