"""Bespoke structural rules: R-IT, R-NON, R-CONV, R-MSK, R-DAR, R-LVL, R-DEL, R-SPC."""
from .core import *
from .core import _operand_locals
from .report import Inst

SELF = ('param', 'self')


def _field_writes(F, field=None):
    """Assignments `(*self).f = v`: (bb, field name, value term, line)"""
    out = []
    F.dom()
    for bi, b in enumerate(F.blocks):
        if bi not in F.reach:
            continue
        for s in b['s']:
            if 'lhs' not in s:
                continue
            pr = s['lhs']['proj']
            if s['lhs']['l'] == 1 and len(pr) == 2 and pr[0] == '*' and isinstance(pr[1], dict) and 'f' in pr[1]:
                if field is None or pr[1]['f'] == field:
                    out.append((bi, pr[1]['f'], norm(F.rvalue_term(s['rv'])), s['line'], pr[1].get('ty', '')))
    return out


# ---------------------------------------------------------------- R-IT

def rule_IT(FA):
    out = []
    props = ['C12', 'C04']
    # group iterator impl methods by self type
    by_base = collections.defaultdict(dict)
    for f in FA.lib_fns(include_closures=False):
        tr = f['impl_trait']
        if tr in ('std::iter::Iterator', 'std::iter::DoubleEndedIterator', 'std::iter::ExactSizeIterator') and f['name'] in ('next', 'next_back', 'len'):
            by_base[f['_base']][f['name']] = f
    # a cursor that leaves its range ends in an unchecked read (or an arithmetic trap): iterator discipline also serves C04
    base_props = lambda b: ['C12', 'C04'] + (['C13'] if b.startswith('qvector') else ['C08'] if b.startswith('bitvector') else [])
    for base, ms in sorted(by_base.items()):
        props = base_props(base)
        nxt = ms.get('next')
        ln = ms.get('len')
        if nxt is None:
            continue
        if ln is None:
            # plain iterator: cursor discipline is reported, not judged (no observable length)
            F = FA.fn(nxt)
            ws = [w for w in _field_writes(F) if w[4] == 'usize']
            unguarded = [w for w in ws if not any(contains(a[1], ('field', SELF, w[1])) or contains(a[2], ('field', SELF, w[1])) for a in path_atoms(F, w[0]) if a[0] in ('<', '<='))]
            out.append(Inst('R-IT', 'R-IT|%s|next' % base, 'note' if unguarded else 'ok', nxt['span'],
                            ('cursor `%s` advances unconditionally (no len(): not observable)' % unguarded[0][1]) if unguarded else 'cursor writes are guarded or delegated',
                            props, nontrivial=bool(ws)))
            continue
        L = FA.fn(FA.inlined(ln))
        lret = norm(L.local_term(0))
        key = 'R-IT|%s' % base
        # `(self.i..self.end).len()` is end - i
        if lret[:1] == ('call',) and lret[1].split('::')[-1] == 'len' and lret[2] and isinstance(lret[2][0], tuple) \
                and lret[2][0][:1] == ('agg',) and 'std::ops::Range:' in lret[2][0][1] and len(lret[2][0][2]) == 2:
            lret = ('bin', 'Sub', lret[2][0][2][1], lret[2][0][2][0])
        if not (lret[0] == 'bin' and lret[1] == 'Sub'):
            out.append(Inst('R-IT', key + '|len', 'violation', ln['span'], 'len() is `%s`, not the difference of the bound and the cursor' % show(lret), props))
            continue
        bound, cur = lret[2], lret[3]
        guard = canon_atom('<', cur, bound)
        ok = True
        for name, m in (('next', nxt), ('next_back', ms.get('next_back'))):
            if m is None:
                continue
            F = FA.fn(m)
            ws = _field_writes(F)
            rel = [w for w in ws if ('field', SELF, w[1]) in (bound, cur)]
            if not rel:
                # the cursor may be moved by code the rule cannot follow (Option combinators with closures, a Range field): no
                # verdict rather than an alarm
                out.append(Inst('R-IT', '%s|%s' % (key, name), 'note', m['span'], '%s() does not write `%s` / `%s` by a plain assignment: cursor discipline not decided' % (name, show(cur), show(bound)), props, nontrivial=False))
                ok = None if ok else ok
                continue
            for bi, fld, val, line, ty in rel:
                atoms = path_atoms(F, bi)
                fterm = ('field', SELF, fld)
                # `self.len() > 0` / `self.len() != 0` is the guard itself, spelled through len() = bound - cursor
                def _is_own_len(t):
                    t = strip_casts(t)
                    return isinstance(t, tuple) and ((t[:1] == ('call',) and t[1].split('::')[-1] == 'len' and len(t[2]) == 1 and strip_ref(t[2][0]) == SELF)
                                                     or norm(t) == norm(lret))
                by_len = any((a[0] == '<' and a[1] == ('const', 0) and _is_own_len(a[2])) or
                             (a[0] == '!=' and ((a[1] == ('const', 0) and _is_own_len(a[2])) or (a[2] == ('const', 0) and _is_own_len(a[1]))))
                             for a in atoms if isinstance(a[2], tuple))
                if guard not in atoms and not by_len and not _guarded_by_get(FA, atoms, cur, bound):
                    opaque = [a for a in atoms if isinstance(a[1], tuple)
                              and any(isinstance(x, tuple) and x[:1] == ('call',) and any(contains(y, SELF) for y in x[2] if isinstance(y, tuple))
                                      for side in a[1:3] if isinstance(side, tuple) for x in subterms(side))]
                    if opaque:
                        # the write happens only after a call answered Some / true (`let pos = (self.i..self.end).next()?`):
                        # a guard the rule cannot interpret
                        out.append(Inst('R-IT', '%s|%s|%s' % (key, name, fld), 'note', line, 'cursor write guarded by `%s`: not decided' % fmt_atom(opaque[0])[:100], props, nontrivial=False))
                        ok = None if ok else ok
                        continue
                    out.append(Inst('R-IT', '%s|%s|%s unguarded' % (key, name, fld), 'violation', line,
                                    '%s() writes cursor `%s` without the dominating test `%s`: after exhaustion len() = %s underflows / elements repeat' % (
                                        name, fld, fmt_atom(guard), show(lret)), props,
                                    sample={'path_condition': [fmt_atom(a) for a in atoms], 'len': show(lret)}))
                    ok = False
                    continue
                want = ('bin', 'Add', ('const', 1), fterm) if fterm == cur else ('bin', 'Sub', fterm, ('const', 1))
                if norm(val) != norm(want):
                    out.append(Inst('R-IT', '%s|%s|%s step' % (key, name, fld), 'violation', line,
                                    '%s() sets `%s` to `%s`, expected `%s`' % (name, fld, show(val), show(norm(want))), props))
                    ok = False
        if ok is True:
            out.append(Inst('R-IT', key, 'ok', nxt['span'], 'cursor writes guarded by `%s`, unit steps, len() = %s' % (fmt_atom(guard), show(lret)), props,
                            sample={'guard': fmt_atom(guard), 'len': show(lret)}))
    # overridden skipping methods: `nth(n)` advances RELATIVE to the cursor
    for f in FA.lib_fns(include_closures=False):
        if f['impl_trait'] in ('std::iter::Iterator', 'std::iter::DoubleEndedIterator') and f['name'] in ('nth', 'nth_back', 'advance_by', 'advance_back_by'):
            F = FA.fn(f)
            base = f['_base']
            props = base_props(base)
            bad = None
            n_w = 0
            for bi, fld, val, line, ty in _field_writes(F):
                if ty != 'usize':
                    continue
                n_w += 1
                npar = ('param', f['names'].get('2', '_2'))
                # positive contradiction only: the new cursor is computed from the skip count WITHOUT the old cursor (`i = n`);
                # `i = end` (exhausting the iterator) is fine
                if not contains(val, ('field', SELF, fld)) and contains(val, npar):
                    bad = (line, fld, show(val)[:60])
            key = 'R-IT|%s|%s' % (base, f['name'])
            if bad:
                out.append(Inst('R-IT', key, 'violation', bad[0],
                                '%s() sets the cursor `%s` to `%s`, which does not depend on its previous value: skipping is relative to the current position (wrong elements after a partial consumption, `step_by` never ends)' % (
                                    f['name'], bad[1], bad[2]), props))
            elif n_w:
                out.append(Inst('R-IT', key, 'ok', f['span'], 'cursor moved relative to its previous value', props))
    # read-ahead: after `self.i += 1` an access that still depends on the advanced cursor (`data[self.i >> 6]`) was not
    # covered by the test `i < bound` made before the step
    for base, ms in sorted(by_base.items()):
        props = base_props(base)
        for name in ('next', 'next_back'):
            m = ms.get(name)
            if m is None:
                continue
            F2, fw = apply_forwarding(FA, m)
            if not fw:
                continue
            F2.dom()
            bad = None
            unguarded_access = None
            n_acc = 0
            for bi, b in enumerate(F2.blocks):
                if bi not in F2.reach:
                    continue
                t = b['t']
                idxs = []
                if t['k'] == 'assert' and 'bounds' in t.get('msg', {}):
                    idxs.append(t['msg']['index'])
                if t['k'] == 'call' and 'fn' in t['f']:
                    fn = t['f']['fn']
                    if fn['name'] in ('index', 'index_mut', 'get_unchecked', 'get_unchecked_mut') and len(t['args']) == 2:
                        idxs.append(t['args'][1])
                    elif fn['unsafe'] and (fn.get('local') or fn.get('crate') == 'qwt'):
                        idxs.extend(t['args'][1:])
                if t['k'] == 'call' and 'fn' in t['f'] and t['f']['fn']['name'] in ('get_word', 'get_unchecked', 'index') and len(t['args']) == 2 \
                        and t['args'][1] not in idxs:
                    idxs.append(t['args'][1])
                for o in idxs:
                    if 'p' not in o:
                        continue
                    n_acc += 1
                    tm = norm(F2.operand_term(o))
                    # an access that depends on the cursor but is not dominated by ANY order test of the cursor: the bound test
                    # comes after the access (a panic where the iterator should answer None)
                    for fld, _ in fw:
                        old = ('field', SELF, fld)
                        if contains(tm, old) and F2.locals[1].startswith('&mut'):
                            tested = any((a[0] in ('<', '<=') and (contains(a[1], old) or contains(a[2], old))) or
                                         (a[0] in ('is', 'true') and isinstance(a[1], tuple) and contains(a[1], old)) for a in path_atoms(F2, bi))
                            panicking = t['k'] == 'assert' or (t['k'] == 'call' and not t['f']['fn']['unsafe'])
                            if not tested and panicking and unguarded_access is None:
                                unguarded_access = (t.get('line', ''), show(tm)[:60], fld)
                    for fld, _ in fw:
                        old = ('field', SELF, fld)
                        ahead = [st for st in subterms(tm) if isinstance(st, tuple) and st[:2] == ('bin', 'Add') and old in (st[2], st[3])
                                 and any(x[:1] == ('const',) and isinstance(x[1], int) and x[1] >= 1 for x in (st[2], st[3]))]
                        if not ahead:
                            continue
                        covered = any(a[0] in ('<', '<=') and contains(a[1], ahead[0]) for a in path_atoms(F2, bi))
                        if not covered:
                            bad = (t.get('line', ''), show(tm)[:80], fld)
            if unguarded_access:
                out.append(Inst('R-IT', 'R-IT|%s|%s|access before bound test' % (base, name), 'violation', unguarded_access[0],
                                '%s() reads storage at `%s` before any test of the cursor `%s` against the bound: at the end of the sequence the access panics where the iterator must answer None' % (
                                    name, unguarded_access[1], unguarded_access[2]), props))
            key = 'R-IT|%s|%s|read-ahead' % (base, name)
            if bad:
                out.append(Inst('R-IT', key, 'violation', bad[0],
                                '%s() accesses `%s` AFTER advancing `%s`: only the position before the step was tested against the bound, the access is one element ahead (out of bounds at the end of the storage)' % (
                                    name, bad[1], bad[2]), props))
            elif n_acc:
                out.append(Inst('R-IT', key, 'ok', m['span'], '%d storage access(es), none depends on the cursor after its step without a new bound test' % n_acc, props, nontrivial=False))
    # constructors of the other iterator types: the bound handed to the iterator is the container's length, not another
    # counter of the container (`n_bits: self.n_ones`)
    from . import r_guard as _rg
    for f in FA.lib_fns(include_closures=False):
        base = f.get('_base')
        if base not in _rg.PROPS_OF_BASE or f['unsafe']:
            continue
        LEN = _rg.len_term(FA, base)
        if not (isinstance(LEN, tuple) and LEN[:2] == ('field', SELF)):
            continue
        F = FA.fn(f)
        for b in F.blocks:
            for s_ in b['s']:
                rv = s_.get('rv')
                if not (rv and rv['k'] == 'agg' and rv['kind'].get('adt') in by_base and rv['kind'].get('adt') != 'WTIterator'):
                    continue
                it = rv['kind']['adt']
                names = [x['name'] for x in FA.adts[it]['fields']]
                for nm, o in zip(names, rv['ops']):
                    if nm not in ('n_bits', 'end', 'len', 'n', LEN[2]):
                        continue
                    tm = strip_casts(norm(F.operand_term(o)))
                    key = 'R-IT|%s|ctor %s.%s' % (fn_key(f), it.split('::')[-1], nm)
                    if tm == LEN:
                        out.append(Inst('R-IT', key, 'ok', s_['line'], '%s { %s: %s }' % (it.split('::')[-1], nm, show(tm)), base_props(it)))
                    elif tm[:2] == ('field', SELF) and tm[2] != LEN[2]:
                        out.append(Inst('R-IT', key, 'violation', s_['line'],
                                        '`%s` builds %s with `%s: %s`, but the length of the container is `%s`: the iterator stops (or runs on) at another count' % (
                                            f['name'], it.split('::')[-1], nm, show(tm), show(LEN)), base_props(it)))
    # a double-ended iterator's front cursor stops at the BACK cursor: `next` reads the field `next_back` moves
    for base, ms in sorted(by_base.items()):
        nb, nx = ms.get('next_back'), ms.get('next')
        if nb is None or nx is None:
            continue
        back = {w[1] for w in _field_writes(FA.fn(nb))}
        front = {w[1] for w in _field_writes(FA.fn(nx))}
        backonly = back - front
        if not backonly:
            continue
        NX = FA.fn(FA.inlined(nx))
        reads = set()
        # fields read by the methods `next` calls on itself (`self.len()`, `self.is_done()`), one level deep
        for bi_, t_ in NX.calls():
            cands_ = list(FA.resolve(t_['f']['fn']))
            fn_ = t_['f']['fn']
            if fn_['name'] in ms and (fn_.get('self_ty') or '').split('<')[0].split('::')[-1] == base.split('::')[-1]:
                cands_.append(ms[fn_['name']])      # a std trait method implemented for the iterator itself (`self.len()`)
            for cal in cands_:
                if cal.get('_base') == base and cal['kind'] != 'Closure':
                    CF = FA.fn(cal)
                    for b2 in CF.blocks:
                        for s2 in b2['s']:
                            for o2 in rv_operands(s2['rv']):
                                if 'p' in o2 and o2['p']['l'] == 1:
                                    reads.update(e['f'] for e in o2['p']['proj'] if isinstance(e, dict) and 'f' in e)
        for b in NX.blocks:
            for s_ in b['s']:
                for o in rv_operands(s_['rv']):
                    if 'p' in o:
                        for st in subterms(norm(NX.place_term(o['p']))):
                            if isinstance(st, tuple) and st[:2] == ('field', SELF):
                                reads.add(st[2])
            t = b['t']
            for o in (t.get('args', []) if t['k'] == 'call' else []) + ([t['d']] if t['k'] == 'switch' else []):
                if 'p' in o:
                    for st in subterms(norm(NX.place_term(o['p']))):
                        if isinstance(st, tuple) and st[:2] == ('field', SELF):
                            reads.add(st[2])
        key = 'R-IT|%s|next reads the back cursor' % base
        if not (backonly & reads):
            out.append(Inst('R-IT', key, 'violation', nx['span'],
                            'next_back() moves `%s` but next() never reads it: after elements were taken from the back, the front cursor runs past them and yields them again' % ', '.join(sorted(backonly)), base_props(base)))
        else:
            out.append(Inst('R-IT', key, 'ok', nx['span'], 'next() reads `%s`' % ', '.join(sorted(backonly & reads)), base_props(base)))
    # constructors of WTIterator set (0, len)
    for f in FA.lib_fns(include_closures=False):
        if f['name'] in ('iter', 'into_iter') and f.get('_base') in ('quadwt::QWaveletTree', 'quadwt::huffqwt::HuffQWaveletTree', 'binwt::WaveletTree'):
            F = FA.fn(f)
            for b in F.blocks:
                for s in b['s']:
                    rv = s.get('rv')
                    if rv and rv['k'] == 'agg' and rv['kind'].get('adt') == 'WTIterator':
                        ops = [norm(F.operand_term(o)) for o in rv['ops']]
                        names = [x['name'] for x in FA.adts['WTIterator']['fields']]
                        d = dict(zip(names, ops))
                        st = 'ok'
                        lt = d.get('end')
                        from . import r_guard
                        LEN = r_guard.len_term(FA, f['_base'])
                        if d.get('i') != ('const', 0) or lt != LEN:
                            st = 'violation'
                        out.append(Inst('R-IT', 'R-IT|%s|ctor' % fn_key(f), st, s['line'], 'WTIterator { i: %s, end: %s }' % (show(d.get('i')), show(lt)), props))
    return out


def _guarded_by_get(FA, atoms, cur, bound):
    """The write happens only after `X.get(cursor)` answered Some, where len(X) is the bound
    (`let v = self.bv.get(self.i)?; self.i += 1`)."""
    from . import r_guard
    for a in atoms:
        if a[0] != 'is':
            continue
        for st in subterms(a[1]):
            if isinstance(st, tuple) and st and st[0] == 'call' and st[1].split('::')[-1] == 'get' and len(st[2]) == 2 and st[2][1] == cur:
                X = st[2][0]
                is_some = (a[2] == 1 and not any(isinstance(y, tuple) and y and y[0] == 'call' and y[1].split('::')[-1] == 'branch' for y in subterms(a[1]))) or \
                          (a[2] == 0 and any(isinstance(y, tuple) and y and y[0] == 'call' and y[1].split('::')[-1] == 'branch' for y in subterms(a[1])))
                if not is_some:
                    continue
                for (base, name), contract in r_guard.API.items():
                    if name == 'get' and contract.get(1) == 'index':
                        L = r_guard.len_term(FA, base)
                        if L is not None and r_guard._replace(L, SELF, X) == bound:
                            return True
    return False


# ---------------------------------------------------------------- R-NON / R-CONV

READS = ('get', 'get_unchecked', 'get_bits', 'get_bits_unchecked', 'get_word', 'count_ones', 'n_ones', 'get_bit_slice', 'get_bits_slice')


def _mentions_old_content(t):
    for st in subterms(t):
        if isinstance(st, tuple) and st and st[0] == 'call' and st[1].split('::')[-1] in READS and st[2] and contains(st[2][0], SELF):
            return True
    return False


def rule_NON(FA):
    out = []
    props = ['C08', 'C19', 'C10', 'C06', 'C04', 'C14']
    base = 'bitvector::BitVectorMut'
    n = 0
    for f in FA.lib_fns(include_closures=False):
        if f.get('_base') != base or f['argc'] < 1 or not f['locals'][1].startswith('&mut'):
            continue
        F = FA.fn(f)
        ws = _field_writes(F, 'n_ones')
        if not ws:
            continue
        # does it overwrite existing bits? set_symbol on self.data[<index from a parameter>]
        overwrites = False
        for bi, t in F.calls():
            fn = t['f']['fn']
            if fn['name'] == 'set_symbol' and t['args']:
                r = norm(F.operand_term(t['args'][0]))
                for st in subterms(r):
                    if isinstance(st, tuple) and st and st[0] == 'call' and st[1].split('::')[-1] in ('index_mut', 'get_unchecked_mut', 'get_mut') and len(st[2]) == 2:
                        if contains(st[2][0], SELF):
                            overwrites = True
                    if isinstance(st, tuple) and st and st[0] == 'index' and contains(st[1], SELF):
                        overwrites = True
        key = 'R-NON|%s' % fn_key(f)
        if not overwrites:
            out.append(Inst('R-NON', key, 'ok', f['span'], 'writes only fresh bits (no overwrite of existing content)', props, nontrivial=False))
            continue
        n += 1
        dep = False
        for bi, fld, val, line, ty in ws:
            if _mentions_old_content(val) or any(_mentions_old_content(a[1]) or (isinstance(a[2], tuple) and _mentions_old_content(a[2])) for a in path_atoms(F, bi)):
                dep = True
        # the compensation must happen on every path that overwrites: an update that is additionally conditional on a
        # VALIDITY answer of a checked accessor (`if let Some(old) = self.get_bits(..)`) is skipped whenever that accessor
        # is stricter than this function's own guard, while the bits are still overwritten
        skipped = None
        w_atoms = None
        for bi, t in F.calls():
            if t['f']['fn']['name'] == 'set_symbol':
                a = {fmt_atom(x) for x in path_atoms(F, bi)}
                w_atoms = a if w_atoms is None else (w_atoms & a)
        for bi, fld, val, line, ty in ws:
            for a in path_atoms(F, bi):
                if a[0] == 'is' and fmt_atom(a) not in (w_atoms or set()):
                    calls = [x for x in subterms(a[1]) if isinstance(x, tuple) and x[:1] == ('call',) and x[1].split('::')[-1] in ('get_bits', 'get', 'get_word')
                             and x[2] and contains(x[2][0], SELF)]
                    if calls:
                        skipped = (line, show(calls[0])[:60])
        # an overwrite can turn a one into a zero as well as a zero into a one: the cached count moves both ways
        ctr = ('field', SELF, 'n_ones')
        incs = [w for w in ws if w[2][:2] == ('bin', 'Add') and ctr in (w[2][2], w[2][3])]
        decs = [w for w in ws if w[2][:2] == ('bin', 'Sub') and w[2][2] == ctr]
        if dep and len(incs) + len(decs) == len(ws) and bool(incs) != bool(decs):
            out.append(Inst('R-NON', key + '|both directions', 'violation', ws[0][3],
                            '%s overwrites existing bits but only ever %s the cached count of ones (`%s`): %s leaves the count wrong' % (
                                f['name'], 'increases' if incs else 'decreases', show(ws[0][2])[:60],
                                'clearing a bit that was set' if incs else 'setting a bit that was clear'), props, sample={'updates': [show(w[2])[:100] for w in ws]}))
        # ... and in the right direction: the count grows on a path where the written bit is 1 and shrinks where it is 0
        bools = [('param', f['names'].get(str(k), '_%d' % k)) for k in range(2, f['argc'] + 1) if f['locals'][k] == 'bool']
        if bools:
            wrong = None
            for w in incs + decs:
                want_true = w in incs
                for a in path_atoms(F, w[0]):
                    if a[0] in ('true', 'false') and a[1] in bools and (a[0] == 'true') != want_true:
                        wrong = (w[3], 'increased' if want_true else 'decreased', show(a[1]), 'false' if want_true else 'true')
            if wrong:
                out.append(Inst('R-NON', key + '|direction', 'violation', wrong[0],
                                'the cached count of ones is %s on a path where the written bit `%s` is %s: the counter moves the wrong way' % (wrong[1], wrong[2], wrong[3]), props))
        if dep and skipped:
            out.append(Inst('R-NON', key, 'violation', skipped[0],
                            '%s overwrites bits on every path but compensates the cached count of ones only when `%s` answers Some: when that accessor rejects a range this function accepts, the overwritten ones stay counted' % (
                                f['name'], skipped[1]), props, sample={'updates': [show(w[2])[:100] for w in ws]}))
        elif dep:
            out.append(Inst('R-NON', key, 'ok', f['span'], 'n_ones update depends on the overwritten content', props,
                            sample={'updates': [show(w[2])[:100] for w in ws]}))
        else:
            out.append(Inst('R-NON', key, 'violation', ws[0][3],
                            '%s overwrites existing bits but updates the cached count of ones (`%s`) without reading the overwritten bits' % (f['name'], show(ws[0][2])[:80]), props,
                            sample={'updates': [show(w[2])[:100] for w in ws]}))
    # extend_with_zeros keeps data.len() == ceil(n_bits / LINE_BITS): push starts a new line exactly at n_bits % LINE_BITS == 0
    ez = (FA.by_base_name.get((base, 'extend_with_zeros'), []) or [None])[0]
    lay = (FA.layouts.get('bitvector::DataLine') or {}).get('layout') or {}
    line_bits = lay.get('size', 0) * 8
    key = 'R-NON|bitvector::BitVectorMut::extend_with_zeros|line count'
    if ez is None or not line_bits:
        out.append(Inst('R-NON', key, 'violation', '', 'extend_with_zeros / DataLine layout not found (anchor lost)', props))
    else:
        E = FA.fn(ez)
        found = False
        for bi, t in E.calls():
            if t['f']['fn']['name'] in ('resize_with', 'resize') and len(t['args']) >= 2:
                found = True
                cnt = norm(E.operand_term(t['args'][1]))
                ok = False
                for st in [cnt]:
                    x = st
                    if x[0] == 'bin' and x[1] in ('Shr', 'Div') and x[3][0] == 'const':
                        d = (1 << x[3][1]) if x[1] == 'Shr' else x[3][1]
                        b0, c = x[2], 0
                        if b0[0] == 'bin' and b0[1] == 'Add':
                            for u, v in ((b0[2], b0[3]), (b0[3], b0[2])):
                                if u[0] == 'const':
                                    b0, c = v, u[1]
                                    break
                        ok = d == line_bits and c == line_bits - 1 and contains(b0, ('field', SELF, 'n_bits'))
                    if x[0] == 'call' and x[1].split('::')[-1] == 'div_ceil' and len(x[2]) == 2:
                        ok = x[2][1] == ('const', line_bits) and contains(x[2][0], ('field', SELF, 'n_bits'))
                if ok:
                    out.append(Inst('R-NON', key, 'ok', t['line'], 'data is resized to ceil(n_bits / %d) lines' % line_bits, props, sample={'count': show(cnt)}))
                else:
                    out.append(Inst('R-NON', key, 'violation', t['line'],
                                    'data is resized to `%s` lines, not ceil(n_bits / %d): push starts a new line exactly when n_bits %% %d == 0, so a spare or missing line shifts every later bit' % (show(cnt)[:80], line_bits, line_bits), props,
                                    sample={'count': show(cnt)}))
        if not found:
            out.append(Inst('R-NON', key, 'violation', ez['span'], 'no resize of the line vector found (anchor lost)', props))
    # the length advances by more than one bit only together with a resize of the line vector (extend_with_zeros); a path that
    # adds a chunk length to n_bits and allocates nothing leaves data.len() < ceil(n_bits / LINE_BITS)
    for g in FA.lib_fns(include_closures=False):
        if g.get('_base') != base or g['argc'] < 1 or not g['locals'][1].startswith('&mut'):
            continue
        G = FA.fn(g)
        dom = G.dom()
        for bi, fld, val, line, ty in _field_writes(G, 'n_bits'):
            if not (val[:2] == ('bin', 'Add') and ('field', SELF, 'n_bits') in (val[2], val[3])):
                continue
            inc = val[3] if val[2] == ('field', SELF, 'n_bits') else val[2]
            if inc[:1] == ('const',):
                continue
            alloc = [bj for bj, t in G.calls() if t['f']['fn']['name'] in ('resize', 'resize_with', 'push', 'extend', 'reserve') and
                     any(isinstance(x, tuple) and x[:2] == ('field', SELF) and x[2] == 'data' for x in subterms(norm(G.operand_term(t['args'][0])))) if t['args']]
            covered = bool(alloc)   # which path allocates is a numeric question (does the chunk cross a line?); none at all is the defect
            key = 'R-NON|%s|length advance' % fn_key(g)
            if covered:
                out.append(Inst('R-NON', key, 'ok', line, 'n_bits advances by `%s` together with an allocation of lines' % show(inc)[:40], props))
            else:
                out.append(Inst('R-NON', key, 'violation', line,
                                '%s adds `%s` to n_bits on a path that allocates no line: when the chunk crosses a %d-bit line the storage is one line short (later writes land in the previous line, reads panic)' % (
                                    g['name'], show(inc)[:40], line_bits), props))
    # any other place that sizes a line vector from a bit count: floor(n / LINE_BITS) + 1 is one line too many when n is a multiple
    if line_bits:
        k9 = line_bits.bit_length() - 1
        for g in FA.lib_fns(include_derived=True):   # hand-written serde impls carry serde's `_::_serde` path segment
            if g['derived'] or not fn_key(FA.closure_parent(g)).startswith('bitvector'):
                continue
            G = FA.fn(g)
            for bi, t in G.calls():
                fn = t['f']['fn']
                if fn['name'] in ('resize', 'resize_with', 'from_elem', 'with_capacity', 'repeat_n', 'take') and len(t['args']) >= 1:
                    if not any('DataLine' in x for x in fn.get('gargs', [])) and 'DataLine' not in (G.locals[t['dest']['l']] if not t['dest']['proj'] else ''):
                        continue
                    for a in t['args']:
                        cnt = strip_casts(norm(G.operand_term(a)))
                        if cnt[:2] == ('bin', 'Add') and ('const', 1) in (cnt[2], cnt[3]):
                            other = cnt[3] if cnt[2] == ('const', 1) else cnt[2]
                            other = strip_casts(other)
                            if other[:2] == ('bin', 'Shr') and other[3] == ('const', k9) and fn_key(FA.closure_parent(g)) != fn_key(ez or {'path': '', 'kind': '', 'name': ''}):
                                out.append(Inst('R-NON', 'R-NON|%s|line count' % fn_key(FA.closure_parent(g)), 'violation', t.get('line', ''),
                                                '`%s` sizes the line vector with `%s`: floor(n / %d) + 1 is one line too many when n is a multiple of %d (a value that no longer equals one built by push)' % (
                                                    fn['name'], show(cnt)[:60], line_bits, line_bits), props + ['C11']))
    # R-CONV
    for a, b in (('bitvector::BitVector', 'bitvector::BitVectorMut'), ('bitvector::BitVectorMut', 'bitvector::BitVector')):
        cands = [f for f in FA.by_base_name.get((a, 'from'), []) if f['impl_trait'] == 'std::convert::From' and base_type(f['locals'][1]) == b]
        key = 'R-CONV|%s from %s' % (a.split('::')[-1], b.split('::')[-1])
        if not cands:
            out.append(Inst('R-CONV', key, 'violation', '', 'conversion not found (anchor lost)', props + ['C19']))
            continue
        f = cands[0]
        F = FA.fn(f)
        P = ('param', f['names'].get('1', '_1'))
        found = False
        for blk in F.blocks:
            for s in blk['s']:
                rv = s.get('rv')
                if rv and rv['k'] == 'agg' and rv['kind'].get('adt') == a:
                    found = True
                    names = [x['name'] for x in FA.adts[a]['fields']]
                    bad = []
                    for nm, o in zip(names, rv['ops']):
                        t = norm(F.operand_term(o))
                        if not contains(t, ('field', P, nm)):
                            bad.append('%s <- %s' % (nm, show(t)[:60]))
                    if bad:
                        out.append(Inst('R-CONV', key, 'violation', s['line'], 'conversion does not carry field(s) over name-for-name: %s' % '; '.join(bad), props + ['C19']))
                    else:
                        out.append(Inst('R-CONV', key, 'ok', s['line'], 'fields %s moved name-for-name' % ', '.join(names), props + ['C19']))
        if not found:
            out.append(Inst('R-CONV', key, 'violation', f['span'], 'no struct literal of the target type found', props + ['C19']))
    return out


# ---------------------------------------------------------------- R-MSK

def bit_width(t, F=None):
    """Structural upper bound on the number of significant bits of an integer term."""
    if not isinstance(t, tuple) or not t:
        return 128
    k = t[0]
    if k == 'const':
        return int(t[1]).bit_length()
    if k == 'bin':
        op, a, b = t[1], t[2], t[3]
        if op == 'BitAnd':
            return min(bit_width(a), bit_width(b))
        if op == 'Shr' and b[0] == 'const':
            return max(bit_width(a) - b[1], 0)
        if op == 'Shl' and b[0] == 'const':
            return bit_width(a) + b[1]
        if op in ('BitOr', 'BitXor'):
            return max(bit_width(a), bit_width(b))
        return 128
    if k == 'cast':
        w = {'u8': 8, 'u16': 16, 'u32': 32, 'u64': 64, 'usize': 64, 'u128': 128, 'bool': 1}.get(t[1], 128)
        return min(w, bit_width(t[2]))
    if k == 'cexpr':
        return 128
    # a value drawn from an array literal by an iterator (`for (plane, bit) in [hi, lo].into_iter().enumerate()`): the widest
    # element of the literal
    arrs = [x for x in subterms(t) if isinstance(x, tuple) and x[:1] == ('agg',) and x[1] == 'array' and x[2]]
    if arrs and k in ('call', 'field', 'variant', 'unknown'):
        return max(bit_width(o) for o in arrs[0][2])
    return 128


def rule_MSK(FA):
    out = []
    props = ['C13']
    f = None
    for g in FA.by_base_name.get(('qvector::DataLine', 'set_symbol'), []):
        f = g
    if f is None:
        return [Inst('R-MSK', 'R-MSK|qvector::DataLine::set_symbol', 'violation', '', 'function not found (anchor lost)', props)]
    F = FA.fn(f)
    ors = []
    for b in F.blocks:
        for s in b['s']:
            rv = s.get('rv')
            if rv and rv['k'] == 'bin' and rv['op'] == 'BitOr':
                val = _resolve_consts(FA, norm(F.operand_term(rv['b'])))
                cur = _resolve_consts(FA, norm(F.operand_term(rv['a'])))
                # the operand that is not the stored word
                cand = val if contains(cur, SELF) else cur
                ors.append((cand, s['line']))
    if len(ors) < 1:
        out.append(Inst('R-MSK', 'R-MSK|qvector::DataLine::set_symbol', 'note', f['span'], 'no OR-write into the bit planes recognised: masking not decided', props, nontrivial=False))
    planes = []
    for val, line in ors:
        v = val
        if v[0] == 'bin' and v[1] == 'Shl':
            v = v[2]
        w = bit_width(v)
        planes.append(show(v))
        key = 'R-MSK|qvector::DataLine::set_symbol|%d' % len(planes)
        opaque = has_unknown(v) or any(isinstance(st, tuple) and st[:1] in (('call',), ('agg',), ('index',)) for st in subterms(v))
        if w <= 1:
            out.append(Inst('R-MSK', key, 'ok', line, 'value OR-ed into a bit plane is one bit wide: %s' % show(v), props, sample={'value': show(val)}))
        elif opaque:
            # the value comes out of a call / an iteration the width analysis does not open: no contradiction shown
            out.append(Inst('R-MSK', key, 'note', line, 'width of the value OR-ed into a bit plane not decided (`%s`)' % show(v)[:80], props, nontrivial=False))
        else:
            out.append(Inst('R-MSK', key, 'violation', line,
                            'value OR-ed into a bit plane can be up to %d bits wide (`%s`): bits above the two least significant ones of the pushed symbol leak into neighbouring positions' % (w, show(v)), props,
                            sample={'value': show(val)}))
    # factor-2 agreement: push step == 1 << shift of len()
    push = (FA.by_base_name.get(('qvector::QVectorBuilder', 'push'), []) or [None])[0]
    ln = (FA.by_base_name.get(('qvector::QVector', 'len'), []) or [None])[0]
    key = 'R-MSK|QVectorBuilder::push step vs QVector::len'
    if push is None or ln is None:
        out.append(Inst('R-MSK', key, 'violation', '', 'push/len not found (anchor lost)', props))
    else:
        Pf = FA.fn(push)
        # the position counter of the builder is the usize field that push advances by a constant (whatever its name)
        ws = [w for w in _field_writes(Pf) if w[4] == 'usize']
        lt = summary(FA, ln)
        step = None
        ctr = 'position'
        for bi, fld, val, line, ty in ws:
            if val[0] == 'bin' and val[1] == 'Add' and ('field', SELF, fld) in (val[2], val[3]):
                for x in (val[2], val[3]):
                    if x[0] == 'const':
                        step = x[1]
                        ctr = fld
        shift = None
        if lt is not None and lt[0] == 'bin' and lt[1] == 'Shr' and lt[3][0] == 'const':
            shift = lt[3][1]
        if step is not None and shift is not None and step == (1 << shift):
            out.append(Inst('R-MSK', key, 'ok', push['span'], 'push advances position by %d, len() = position >> %d' % (step, shift), props))
        elif step is None or shift is None:
            out.append(Inst('R-MSK', key, 'note', push['span'], 'the step of the position counter in push (or the shift in len()) was not recognised: not decided', props, nontrivial=False))
        else:
            out.append(Inst('R-MSK', key, 'violation', push['span'], 'push advances position by %s but len() is %s' % (step, show(lt) if lt else '?'), props))
        # the in-line position handed to set_symbol is (position >> shift) & 255
        ok_pos = False
        for bi, t in Pf.calls():
            if t['f']['fn']['name'] == 'set_symbol' and len(t['args']) == 3:
                pos = norm(Pf.operand_term(t['args'][2]))
                pos = strip_casts(pos)
                want = norm(('bin', 'BitAnd', ('bin', 'Shr', ('field', SELF, ctr), ('const', shift if shift is not None else 1)), ('const', 255)))
                ok_pos = pos == want
                opaque_pos = has_unknown(pos) or any(isinstance(st, tuple) and st[:1] in (('call',), ('agg',), ('index',)) for st in subterms(pos))
                out.append(Inst('R-MSK', 'R-MSK|QVectorBuilder::push position', 'ok' if ok_pos else ('note' if opaque_pos else 'violation'), t['line'],
                                'in-line position is `%s`%s' % (show(pos), '' if ok_pos or not opaque_pos else ' (computed by code the rule does not open: not decided)'), props,
                                nontrivial=ok_pos or not opaque_pos))
        # extend pushes every element converted with as_()
    ext = [g for g in FA.by_base_name.get(('qvector::QVectorBuilder', 'extend'), [])]
    if ext:
        E = FA.fn(ext[0])
        good = False
        for g in FA.with_closures(ext[0]):
            G = FA.fn(g)
            for bi, t in G.calls():
                if t['f']['fn']['name'] != 'push' or len(t['args']) != 2:
                    continue
                a = norm(G.operand_term(t['args'][1]))
                if a[0] == 'as_' and a[1] == 'u8':
                    src = a[2]
                    # the pushed value is the element itself: yielded by next() in a loop, or the closure's argument
                    if any(isinstance(x, tuple) and x and x[0] == 'call' and x[1].split('::')[-1] == 'next' for x in subterms(src)) or \
                            (g['kind'] == 'Closure' and src[:1] == ('param',)):
                        good = True
        # extend is "for each element: push": it must not touch the line vector or the position itself
        direct = [w for w in _field_writes(E)]
        touching = []
        for bi, t in E.calls():
            if t['f']['fn']['name'] in ('push',) and len(t['args']) == 2 and norm(E.operand_term(t['args'][0])) == SELF:
                continue
            for a in t['args'][:1]:
                tm = norm(E.operand_term(a))
                if any(isinstance(x, tuple) and x[:2] == ('field', SELF) for x in subterms(tm)):
                    touching.append(short_callee(t['f']['fn']))
        if direct or touching:
            good = False
        # positive contradiction: the counter is in bits (two per symbol); a slot computed from it without halving addresses
        # the wrong place (`self.position & 255`)
        raw = None
        Ei = FA.fn(FA.inlined(ext[0]))
        Ei.dom()
        for bi, b in enumerate(Ei.blocks):
            if bi not in Ei.reach:
                continue
            for s_ in b['s']:
                rv = s_['rv']
                if rv['k'] == 'bin' and rv['op'] in ('BitAnd', 'Rem'):
                    a, c = norm(Ei.operand_term(rv['a'])), norm(Ei.operand_term(rv['b']))
                    if a[:1] == ('const',):
                        a, c = c, a
                    if strip_casts(a) == ('field', SELF, ctr if push is not None and ln is not None else 'position') and c[:1] == ('const',) and isinstance(c[1], int) and c[1] >= 63:
                        raw = s_.get('line', '')
        checked_conv = None
        for g in FA.with_closures(ext[0]):
            G = FA.fn(g)
            for bi, t in G.calls():
                if t['f']['fn']['name'] == 'push' and len(t['args']) == 2:
                    a = norm(G.operand_term(t['args'][1]))
                    for st in subterms(a):
                        if isinstance(st, tuple) and st[:1] == ('call',) and st[1].split('::')[-1] in ('to_u8', 'to_i8', 'try_into', 'try_from', 'to_u16', 'to_u32', 'to_usize', 'to_u64'):
                            checked_conv = (t.get('line', ''), st[1].split('::')[-1])
        if checked_conv:
            out.append(Inst('R-MSK', 'R-MSK|QVectorBuilder::extend', 'violation', checked_conv[0],
                            'extend converts each element with the CHECKED conversion `%s` before pushing: values outside the target range do not keep their two low bits (they become the fallback / panic), where push stores `v mod 4` of every value' % checked_conv[1], props))
        elif raw:
            out.append(Inst('R-MSK', 'R-MSK|QVectorBuilder::extend', 'violation', raw,
                            'extend derives a slot from the bit counter without halving it (`position & mask`): push and len() use position >> 1', props))
        elif good:
            out.append(Inst('R-MSK', 'R-MSK|QVectorBuilder::extend', 'ok', ext[0]['span'], 'extend pushes as_::<u8>() of every yielded element and nothing else', props))
        else:
            out.append(Inst('R-MSK', 'R-MSK|QVectorBuilder::extend', 'note', ext[0]['span'],
                            'extend is not the plain "push(as_()) of each yielded element" (%s): equivalence with push not decided' % (', '.join(['writes self.%s' % w[1] for w in direct] + touching)[:120] or 'no such push found'), props, nontrivial=False))
    return out


def _resolve_consts(FA, t):
    """Replace named associated constants (Self::MASK) by their evaluated value."""
    if isinstance(t, tuple) and t:
        if t[0] == 'cexpr':
            name = t[1]
            for k, v in FA.consts.items():
                if k == name or name.endswith('::' + k.split('::')[-1]) and k.split('::')[-1] == name.split('::')[-1]:
                    if isinstance(v['val'], str):
                        return ('const', int(v['val']))
            return t
        return tuple(_resolve_consts(FA, x) for x in t)
    return t


# ---------------------------------------------------------------- R-DAR

def _pow2(n):
    return n > 0 and (n & (n - 1)) == 0


INV_OWNER = 'darray::Inventories'


def _origin_id(F, l, depth=0):
    """Identity of the container a local is (a reference to / a conversion of): (root local, first field name | None).
    Follows moves, re-borrows and the conversions that keep the elements (into_boxed_slice, collect, into ...)."""
    if depth > 10:
        return (l, None)
    if 1 <= l <= F.argc:
        return (l, None)
    ds = [d for d in F.defs.get(l, []) if d[0] in F.reach]
    if len(ds) != 1:
        return (l, None)
    d = ds[0]
    if d[1] == 'assign':
        rv = d[2]
        pl = None
        if rv['k'] in ('ref', 'rawptr'):
            pl = rv['p']
        elif rv['k'] == 'use' and 'p' in rv['a']:
            pl = rv['a']['p']
        elif rv['k'] == 'cast' and 'p' in rv['a']:
            pl = rv['a']['p']
        if pl is None:
            return (l, None)
        fld = next((e['f'] for e in pl['proj'] if isinstance(e, dict) and 'f' in e), None)
        if fld is not None:
            # field of a struct local (possibly behind a reference)
            r = _origin_id(F, pl['l'], depth + 1)
            return (r[0], fld)
        if any(isinstance(e, dict) for e in pl['proj']):
            return (l, None)
        return _origin_id(F, pl['l'], depth + 1)
    t = d[2]
    if 'fn' in t['f'] and t['args'] and 'p' in t['args'][0] and t['f']['fn']['name'] in (
            'into_boxed_slice', 'into', 'collect', 'into_iter', 'from', 'unwrap', 'try_into', 'to_vec', 'into_vec', 'deref_mut', 'deref',
            'as_mut', 'as_ref', 'borrow_mut', 'as_mut_slice', 'take', 'from_iter'):
        a0 = t['args'][0]['p']
        fld = next((e['f'] for e in a0['proj'] if isinstance(e, dict) and 'f' in e), None)
        r = _origin_id(F, a0['l'], depth + 1)
        return (r[0], fld) if fld is not None else r
    return (l, None)


def _dar_containers(FA, F):
    """{field name of Inventories: identity of the local container its value is built in} in an (inlined) constructor."""
    owner = FA.canon_type(INV_OWNER) or INV_OWNER
    adt = FA.adts.get(INV_OWNER) or {}
    names = [x['name'] for x in adt.get('fields', [])]
    out = {}
    for bi, b in enumerate(F.blocks):
        if bi not in F.reach:
            continue
        for st in b['s']:
            rv = st['rv']
            if rv['k'] == 'agg' and rv['kind'].get('adt') == owner:
                for i, o in enumerate(rv['ops']):
                    if i < len(names) and 'p' in o:
                        fld = next((e['f'] for e in o['p']['proj'] if isinstance(e, dict) and 'f' in e), None)
                        ident = _origin_id(F, o['p']['l'])
                        if fld is not None:
                            ident = (ident[0], fld)
                        out.setdefault(names[i], set()).add(ident)
    return out


def _recv_id(F, operand):
    if not operand or 'p' not in operand:
        return None
    pl = operand['p']
    fld = next((e['f'] for e in pl['proj'] if isinstance(e, dict) and 'f' in e), None)
    r = _origin_id(F, pl['l'])
    return (r[0], fld) if fld is not None else r


def rule_DAR(FA):
    """Reader / writer agreement of the DArray inventories.  The reader is the public select1 with its private helpers
    inlined; the writer is the public constructor with Inventories::new and the flush helper(s) inlined.  The three arrays
    are identified by the Inventories fields their contents end up in, not by the names of helpers or parameters."""
    out = []
    props = ['C07', 'C04']
    from .r_guard import find_method
    sels = [f for f in find_method(FA, 'darray::DArray', 'select1') if not f['unsafe']]
    nws = [f for f in find_method(FA, 'darray::DArray', 'new')]
    if not sels or not nws or INV_OWNER not in FA.adts:
        return [Inst('R-DAR', 'R-DAR|anchors', 'violation', '', 'DArray::select1 / DArray::new / Inventories not found (anchor lost)', props)]
    sel = FA.inlined(sels[0])
    nw = FA.inlined(nws[0])
    # ---- reader divisors
    D = B = None
    P_i = ('param', sels[0]['names'].get('2', '_2'))
    rterm = None
    S = FA.fn(sel)
    S.dom()
    for bi, b in enumerate(S.blocks):
        if bi not in S.reach:
            continue
        for s in b['s']:
            rv = s.get('rv')
            if not rv:
                continue
            if rv['k'] == 'cast' and rv['to'] == 'usize':
                tt = norm(S.operand_term(rv['a']))
                if tt[0] == 'bin' and tt[1] == 'Sub' and tt[3] == ('const', 1) and tt[2][0] == 'un' and tt[2][1] == 'Neg':
                    rterm = tt
            for o in rv_operands(rv):
                if 'p' not in o:
                    continue
                t = norm(S.operand_term(o))
                for st in subterms(t):
                    if isinstance(st, tuple) and st and st[0] == 'index':
                        names = {x[2] for x in subterms(st[1]) if isinstance(x, tuple) and x and x[0] == 'field'}
                        idx = norm(st[2])
                        val = None
                        if idx[0] == 'bin' and idx[1] == 'Shr' and idx[2] == P_i and idx[3][0] == 'const':
                            val = 1 << idx[3][1]
                        if idx[0] == 'bin' and idx[1] == 'Div' and idx[2] == P_i and idx[3][0] == 'const':
                            val = idx[3][1]
                        if val is not None:
                            if 'subblock_inventory' in names:
                                D = val
                            elif 'block_inventory' in names:
                                B = val
    if D is None or B is None:
        out.append(Inst('R-DAR', 'R-DAR|reader divisors', 'violation', sels[0]['span'], 'cannot find the reader indices `i / D` of subblock_inventory and `i / B` of block_inventory', props))
        return out
    out.append(Inst('R-DAR', 'R-DAR|reader divisors', 'ok', sels[0]['span'], 'reader: subblock = i / %d, block = i / %d' % (D, B), props, sample={'D': D, 'B': B}))
    geo = _pow2(B) and _pow2(D) and B % D == 0
    out.append(Inst('R-DAR', 'R-DAR|group geometry', 'ok' if geo else 'violation', sels[0]['span'],
                    'block of %d positions = %d sub-blocks of %d (powers of two)' % (B, B // D if D else 0, D) if geo else
                    'block size %d is not a power-of-two multiple of the sub-block size %d: `i & (B-1)` / `i / D` address the wrong entries' % (B, D), props))
    # ---- writer
    W = FA.fn(nw)
    W.dom()
    cont = _dar_containers(FA, W)
    sub_ids = cont.get('subblock_inventory', set())
    blk_ids = cont.get('block_inventory', set())
    ov_ids = cont.get('overflow_positions', set())
    if not sub_ids or not blk_ids or not ov_ids:
        out.append(Inst('R-DAR', 'R-DAR|anchors', 'violation', nws[0]['span'], 'construction of Inventories { block_inventory, subblock_inventory, overflow_positions } not found in DArray::new (anchor lost)', props))
        return out
    seen_keys = set()

    def emit(inst):
        if (inst.key, inst.status) not in seen_keys:
            seen_keys.add((inst.key, inst.status))
            out.append(inst)
    n_app = 0
    enc = []
    ov_terms = []
    trig = False
    other_trig = []
    blk_sites = []   # (block, comparison atoms) of every push to block_inventory
    sub_sites = []   # (block, comparison atoms) of every append to subblock_inventory
    APP = ('push', 'extend', 'resize', 'extend_from_slice', 'append', 'insert', 'resize_with')
    for bi, t in W.calls():
        fn = t['f']['fn']
        if fn['name'] not in APP or not t['args']:
            continue
        rid = _recv_id(W, t['args'][0])
        atoms = path_atoms(W, bi)
        if rid in ov_ids:
            ov_terms.append(strip_ref(norm(W.operand_term(t['args'][0]))))
        cmp_atoms = frozenset(fmt_atom(a) for a in atoms if a[0] in ('<', '<=', '==', '!='))
        if rid in blk_ids and fn['name'] == 'push':
            blk_sites.append((bi, cmp_atoms, t['line']))
        if rid in sub_ids:
            sub_sites.append((bi, cmp_atoms))
        if rid in blk_ids and fn['name'] == 'push':
            v = norm(W.operand_term(t['args'][1]))
            if any(isinstance(x, tuple) and x and x[0] == 'un' and x[1] == 'Neg' for x in subterms(v)):
                enc.append((v, t['line']))
            for a in atoms:
                if a[0] == '==' and ((a[1] == ('const', B)) or (a[2] == ('const', B))):
                    trig = True
                elif a[0] == '==' and any(x[:1] == ('const',) and isinstance(x[1], int) and x[1] >= 64 for x in (a[1], a[2]) if isinstance(x, tuple)):
                    other_trig.append([x[1] for x in (a[1], a[2]) if isinstance(x, tuple) and x[:1] == ('const',)][0])
        if rid not in sub_ids:
            continue
        n_app += 1
        cnt_terms = []
        if fn['name'] == 'push':
            for a in atoms:
                if a[0] == 'is' and a[2] == 1:
                    cnt_terms.append(a[1])
        else:
            cnt_terms = [norm(W.operand_term(x)) for x in t['args'][1:]]
        okD = False
        for ct in cnt_terms:
            for st in subterms(ct):
                if isinstance(st, tuple) and st:
                    if st[0] == 'call' and st[1].split('::')[-1] in ('step_by', 'div_ceil', 'chunks', 'chunks_exact') and any(x == ('const', D) for x in st[2]):
                        okD = True
                    if st[0] == 'bin' and st[1] == 'Div' and st[3] == ('const', D):
                        okD = True
                    if st[0] == 'bin' and st[1] == 'Shr' and st[3][0] == 'const' and (1 << st[3][1]) == D:
                        okD = True
        branch = 'dense' if any(a[0] in ('<', '<=') and isinstance(a[2], tuple) and a[2][:1] == ('const',) and a[2][1] >= 1024 for a in atoms) else 'sparse'
        key = 'R-DAR|flush_block %s branch appends per %d' % (branch, D)
        if okD:
            emit(Inst('R-DAR', key, 'ok', t['line'], '%s: number of subblock entries is a function of %d' % (fn['name'], D), props,
                      sample={'count_terms': [show(c)[:120] for c in cnt_terms]}))
        else:
            emit(Inst('R-DAR', key, 'violation', t['line'],
                      '%s branch appends a number of subblock_inventory entries that is not one per %d positions (`%s`), but the reader indexes the shared array with i / %d' % (
                          branch, D, '; '.join(show(c)[:80] for c in cnt_terms), D), props,
                      sample={'count_terms': [show(c)[:120] for c in cnt_terms]}))
    if n_app < 2:
        out.append(Inst('R-DAR', 'R-DAR|flush_block appends', 'note', nws[0]['span'], 'appends to subblock_inventory recognised: %d (the writer is built in a way the rule does not follow): per-branch counts not decided' % n_app, props, nontrivial=False))
    # every group writes one block_inventory entry AND its share of subblock_inventory entries: the reader indexes the
    # sub-block array with the global i / D, so a group (dense or sparse) that appends nothing shifts every later group
    lonely = [ln for bi, ca, ln in blk_sites if not any(ca <= cs for _, cs in sub_sites)]
    if blk_sites:
        if lonely:
            out.append(Inst('R-DAR', 'R-DAR|every group appends its sub-block entries', 'violation', lonely[0],
                            'a group pushes its block_inventory entry on a path where nothing is appended to subblock_inventory: the reader indexes subblock_inventory with the global i / %d, later groups read the wrong entries or past the end' % D, props))
        else:
            out.append(Inst('R-DAR', 'R-DAR|every group appends its sub-block entries', 'ok', blk_sites[0][2],
                            'each of the %d block_inventory pushes has an append to subblock_inventory under the same branch conditions' % len(blk_sites), props))
    # sparse-group pointer: the writer stores -(len(overflow_positions)) - 1 (the index at which this group's positions are
    # appended to that same array); the reader decodes (-p - 1) and indexes overflow_positions with it
    key = 'R-DAR|sparse pointer encoding'
    if not enc:
        out.append(Inst('R-DAR', key, 'violation', nws[0]['span'], 'no negative group pointer pushed to block_inventory (anchor lost)', props))
    else:
        v, line = enc[0]
        wok = False
        if v[0] == 'bin' and v[1] == 'Sub' and v[3] == ('const', 1) and v[2][0] == 'un' and v[2][1] == 'Neg':
            inner = strip_casts(v[2][2])
            if inner[0] == 'call' and inner[1].split('::')[-1] == 'len' and inner[2]:
                recv = strip_ref(inner[2][0])
                # `len()` may be taken through Deref to a slice
                while recv[0] == 'call' and recv[1].split('::')[-1] in ('deref', 'as_slice', 'deref_mut') and recv[2]:
                    recv = strip_ref(recv[2][0])
                wok = recv in ov_terms
        if rterm is None:
            # the decode may sit in a closure of the reader (`(p < 0).then(|| (-p - 1) as usize)`)
            for cg in [c for g0 in (sel,) for c in FA.with_closures(g0)[1:]]:
                CG = FA.fn(cg)
                CG.dom()
                for bi, b in enumerate(CG.blocks):
                    if bi not in CG.reach:
                        continue
                    for s in b['s']:
                        rv = s.get('rv')
                        if rv and rv['k'] == 'cast' and rv['to'] == 'usize':
                            tt = norm(CG.operand_term(rv['a']))
                            if tt[0] == 'bin' and tt[1] == 'Sub' and tt[3] == ('const', 1) and tt[2][0] == 'un' and tt[2][1] == 'Neg':
                                rterm = tt
        rok = rterm is not None
        wform = v[0] == 'bin' and v[1] == 'Sub' and v[3][:1] == ('const',) and v[2][0] == 'un' and v[2][1] == 'Neg'
        if wok and rok:
            out.append(Inst('R-DAR', key, 'ok', line, 'writer stores -(len(overflow_positions)) - 1, reader decodes -(p) - 1', props,
                            sample={'writer': show(v), 'reader': show(rterm)}))
        elif wok or not wform:
            out.append(Inst('R-DAR', key, 'note', line,
                            'sparse group pointer `%s`: %s; the encoding is not decided' % (show(v)[:100], 'the decode -(p) - 1 was not found in the reader' if wok else 'the writer\'s form is not -(x) - c'), props, nontrivial=False))
        else:
            out.append(Inst('R-DAR', key, 'violation', line,
                            'sparse group pointer is `%s`%s: it must be -(current length of overflow_positions) - 1, the index at which this group\'s positions are appended, and the reader must decode -(p) - 1' % (
                                show(v)[:100], '' if rok else ' and the reader does not decode -(p) - 1'), props, sample={'writer': show(v), 'reader': show(rterm) if rterm else None}))
    # narrowing store is dominated by span < C <= 2^16
    n_cast = 0
    bodies = [(W, None)]
    for cg in FA.with_closures(nw)[1:]:
        CG = FA.fn(cg)
        CG.dom()
        bodies.append((CG, cg))   # `.map(|&pos| (pos - first) as u16)`: the narrowing may sit in a closure
    for WB, cg in bodies:
      for bi, b in enumerate(WB.blocks):
        if bi not in WB.reach:
            continue
        for s in b['s']:
            rv = s.get('rv')
            if rv and rv['k'] == 'cast' and rv['to'] == 'u16' and rv['from'] in ('usize', 'u64', 'i64', 'u32'):
                n_cast += 1
                atoms = path_atoms(W, bi) if cg is None else site_condition(FA, WB, bi)
                okc = False
                seen = []
                for op, a, c in [x for x in atoms if x[0] in ('<', '<=')]:
                    if c[0] == 'const' and a[0] == 'bin' and a[1] == 'Sub':
                        lim = c[1] if op == '<' else c[1] + 1
                        seen.append('%s %s %d' % (show(a)[:60], op, c[1]))
                        if lim <= 65536:
                            okc = True
                key = 'R-DAR|u16 store bounded'
                if okc:
                    emit(Inst('R-DAR', key, 'ok', s['line'], 'offset stored as u16 under %s' % '; '.join(seen), props))
                else:
                    emit(Inst('R-DAR', key, 'violation', s['line'],
                              'in-block offset is truncated to u16 without a dominating `span < 65536` (%s)' % ('; '.join(seen) or 'no bound'), props))
    if n_cast == 0:
        out.append(Inst('R-DAR', 'R-DAR|u16 store bounded', 'violation', nws[0]['span'], 'narrowing store not found (anchor lost)', props))
    # groups of exactly B positions: `len == B` before the flush, or the positions are taken B at a time
    for bi, t in W.calls():
        if t['f']['fn']['name'] in ('take', 'chunks', 'chunks_exact', 'array_chunks') and len(t['args']) == 2:
            k = strip_casts(norm(W.operand_term(t['args'][1])))
            if k == ('const', B):
                trig = True
            elif k[:1] == ('const',) and isinstance(k[1], int) and k[1] >= 64 and t['f']['fn']['name'] != 'take':
                other_trig.append(k[1])
    if trig:
        out.append(Inst('R-DAR', 'R-DAR|flush trigger', 'ok', nws[0]['span'], 'a group is flushed when it holds exactly %d positions' % B, props))
    elif other_trig:
        out.append(Inst('R-DAR', 'R-DAR|flush trigger', 'violation', nws[0]['span'],
                        'groups are closed at %d positions but the reader finds the group of the i-th position at i / %d' % (other_trig[0], B), props))
    else:
        out.append(Inst('R-DAR', 'R-DAR|flush trigger', 'note', nws[0]['span'], 'the condition under which a group is closed was not recognised: group size not decided', props, nontrivial=False))
    return out


# ---------------------------------------------------------------- R-LVL

ELEMENT_ITER = ('iter', 'into_iter', 'copied', 'cloned', 'by_ref', 'as_ref', 'deref', 'as_slice', 'borrow', 'as_mut', 'iter_mut', 'deref_mut',
                'as_mut_slice', 'enumerate', 'map', 'inspect', 'rev', 'to_vec', 'clone')


def _lossy_call(t):
    """first call in an iterator expression that can drop, merge or repeat elements"""
    for st in subterms(t):
        if isinstance(st, tuple) and st[:1] == ('call',) and st[1].split('::')[-1] not in ELEMENT_ITER:
            return st[1].split('::')[-1]
    return None


def _counting_source(FA, F):
    """Name of a lossy adaptor in the iterator expression that drives the frequency count (fold receiver, or the loop
    in which `map.entry(..)` is called), else ''."""
    for bi, t in F.calls():
        nm = t['f']['fn']['name']
        if nm == 'fold' and len(t['args']) == 3:
            init = norm(F.operand_term(t['args'][1]))
            if any(isinstance(x, tuple) and x[:1] == ('call',) and 'HashMap' in x[1] for x in subterms(init)):
                bad = _lossy_call(norm(F.operand_term(t['args'][0])))
                if bad:
                    return bad
        if nm == 'entry' and t['args'] and 'HashMap' in t['f']['fn']['path']:
            for a in path_atoms(F, bi):
                if a[0] == 'is' and a[2] == 1:
                    for st in subterms(a[1]):
                        if isinstance(st, tuple) and st[:1] == ('call',) and st[1].split('::')[-1] == 'next' and st[2]:
                            bad = _lossy_call(st[2][0])
                            if bad:
                                return bad
    return ''


def _counting_step(FA, f, spec):
    """The slot handed out by `map.entry(symbol).or_insert(0)` is incremented: a store of a constant into it (`= 1` for
    `+= 1`) gives every symbol the same weight.  Returns a description of the contradiction, else ''."""
    for g in FA.with_closures(f):
        G = FA.fn(g, {k: v for k, v in (spec or {}).items() if k in FA.const_params(g)})
        G.dom()
        for bi, t in G.calls():
            if t['f']['fn']['name'] not in ('or_insert', 'or_default', 'or_insert_with') or 'Entry' not in t['f']['fn']['path'] or t['dest']['proj']:
                continue
            slot = {t['dest']['l']}
            for _ in range(3):   # plain copies / reborrows of the slot reference
                for bj, b in enumerate(G.blocks):
                    for s_ in b['s']:
                        rv = s_['rv']
                        if not s_['lhs']['proj'] and ((rv['k'] == 'use' and 'p' in rv['a'] and rv['a']['p']['l'] in slot and not rv['a']['p']['proj']) or
                                                       (rv['k'] == 'ref' and rv['p']['l'] in slot)):
                            slot.add(s_['lhs']['l'])
            stores = []
            for bj, b in enumerate(G.blocks):
                if bj not in G.reach:
                    continue
                for s_ in b['s']:
                    if s_['lhs']['l'] in slot and s_['lhs']['proj'] and s_['lhs']['proj'][0] in ('deref', '*'):
                        stores.append((norm(G.rvalue_term(s_['rv'])), s_.get('line', '')))
            if stores and all(v[:1] == ('const',) for v, _ in stores):
                return 'the counter of a symbol is set to the constant %s at %s instead of being incremented: all symbols get the same weight' % (show(stores[0][0]), stores[0][1])
    return ''


def _is_lengths_map(ty):
    return 'HashMap<' in ty and 'u32' in ty.split('HashMap<', 1)[1]


def _lvl_policy(g):
    """Inline the private phases of the constructor, but keep the function that turns the coder's length map into
    codes (recognised by its `HashMap<_, u32>` (reference) parameter, whatever its name) as a call."""
    if not default_inline_policy(g):
        return False
    return not any(_is_lengths_map(g['locals'][i]) for i in range(1, g['argc'] + 1))


def _takes_lengths_map(fn, FA):
    if not (fn.get('local') or fn.get('crate') == 'qwt'):
        return False
    cands = FA.resolve(fn)
    return len(cands) == 1 and any(_is_lengths_map(cands[0]['locals'][i]) for i in range(1, cands[0]['argc'] + 1))


def rule_LVL(FA):
    out = []
    for base, frag, props, level_ty in (('quadwt::huffqwt::HuffQWaveletTree', 2, ['C02', 'C15'], 'QVectorBuilder'),
                                        ('binwt::WaveletTree', 1, ['C03', 'C15'], 'BitVectorMut')):
        f = (FA.by_base_name.get((base, 'new'), []) or [None])[0]
        if f is None:
            out.append(Inst('R-LVL', 'R-LVL|%s::new' % base, 'violation', '', 'constructor not found (anchor lost)', props))
            continue
        fi = FA.inlined(f, _lvl_policy)
        specs = [s for s in FA.specs(f, deep=True) if s.get('COMPRESSED', True)]
        n_push = 0
        n_craft = 0
        for spec in specs:
            F = FA.fn(fi, spec)
            for bi, t in F.calls():
                fn = t['f']['fn']
                if fn['name'] == 'push' and level_ty in fn['path']:
                    n_push += 1
                    atoms = path_atoms(F, bi)
                    ok = any(a[0] in ('<=', '<') and isinstance(a[2], tuple) and a[2][:1] == ('field',) and a[2][2] == 'len' and a[1][0] != 'const' for a in atoms)
                    key = 'R-LVL|%s::new%s|level write guarded' % (base, spec_key({k: v for k, v in spec.items() if k == 'COMPRESSED'}))
                    if not ok:
                        # the written values may come out of a closure-driven iterator (`seq.iter().filter_map(|s| bit_of(s))`):
                        # the guard then lives in a closure; found there -> ok, otherwise the rule cannot decide
                        pushed = norm(F.operand_term(t['args'][1])) if len(t['args']) > 1 else ('?',)
                        driven = []
                        for a in atoms:
                            if a[0] != 'is' or not isinstance(a[1], tuple):
                                continue
                            nx = [x for x in subterms(a[1]) if isinstance(x, tuple) and x[:1] == ('call',) and x[1].split('::')[-1] == 'next'
                                  and any(isinstance(y, tuple) and y[:1] == ('agg',) and isinstance(y[1], str) and y[1].startswith('closure:') for y in subterms(x))]
                            # ... and the pushed value is what that iterator yields
                            if nx and any(contains(pushed, n_) for n_ in nx):
                                driven.append(a)
                        if driven:
                            in_closure = False
                            for cg in FA.with_closures(fi)[1:]:
                                CG = FA.fn(cg, {k: v for k, v in spec.items() if k in FA.const_params(cg)})
                                CG.dom()
                                for cb in CG.reach:
                                    if any(a[0] in ('<=', '<') and isinstance(a[2], tuple) and a[2][:1] == ('field',) and a[2][2] == 'len' and a[1][0] != 'const'
                                           for a in site_condition(FA, CG, cb)):
                                        in_closure = True
                            if in_closure:
                                out.append(Inst('R-LVL', key, 'ok', t['line'], 'level bits come from a closure that yields a bit only under `shift <= code.len`', props))
                            else:
                                out.append(Inst('R-LVL', key, 'note', t['line'], 'level bits are produced by a closure-driven iterator the rule cannot follow: not decided', props, nontrivial=False))
                            continue
                    if ok:
                        out.append(Inst('R-LVL', key, 'ok', t['line'], 'symbol is written to a level only under `shift <= code.len`', props))
                    else:
                        out.append(Inst('R-LVL', key, 'violation', t['line'],
                                        'level data is written without the dominating test that the symbol\'s code reaches this level: every symbol occupies every level', props,
                                        sample={'path_condition': [fmt_atom(a)[:100] for a in atoms]}))
                if _takes_lengths_map(fn, FA):
                    n_craft += 1
                    a0 = norm(F.operand_term(t['args'][0]))
                    key = 'R-LVL|%s::new%s|optimal lengths' % (base, spec_key({k: v for k, v in spec.items() if k == 'COMPRESSED'}))
                    good = False
                    k_found = None
                    if a0[0] == 'call' and a0[1].split('::')[-1] == 'code_lengths' and a0[2]:
                        inner = a0[2][0]
                        if inner[0] == 'call' and inner[1].split('::')[-1].startswith('from_frequencies'):
                            for x in subterms(inner):
                                if isinstance(x, tuple) and x and x[0] == 'agg' and 'BitsPerFragment' in x[1] and x[2] and x[2][0][0] == 'const':
                                    k_found = x[2][0][1]
                            good = k_found == frag
                    # the frequency table handed to the coder must be the unmodified result of the counting pass
                    freq_mut = ''
                    for bj, t2 in F.calls():
                        if t2['f']['fn']['name'].startswith('from_frequencies') and len(t2['args']) >= 2 and 'p' in t2['args'][1]:
                            freq_mut = _other_uses(F, t2['args'][1]['p']['l'], bj)
                    if freq_mut:
                        good = False
                    # ... and the counting pass visits every element of the input once: the iterator that drives it is the
                    # plain element iterator (no chunk_by / dedup / step_by / skip / take / filter / windows in between)
                    # ... and are handed over as counted: no closure between the counting pass and the coder rescales / packs them
                    for bj, t2 in F.calls():
                        if t2['f']['fn']['name'].startswith('from_frequencies') and len(t2['args']) >= 2 and 'p' in t2['args'][1] and not freq_mut:
                            tmf = norm(F.operand_term(t2['args'][1]))
                            for x in subterms(tmf):
                                if isinstance(x, tuple) and x[:1] == ('agg',) and isinstance(x[1], str) and x[1].startswith('closure:'):
                                    cf = FA.fns.get(x[1][len('closure:'):])
                                    if cf is None:
                                        continue
                                    ops = {s_['rv']['op'].replace('WithOverflow', '').replace('Unchecked', '') for b_ in cf['blocks'] for s_ in b_['s'] if s_['rv']['k'] == 'bin'}
                                    incr_only = ops <= {'Add', 'Eq', 'Ne', 'Lt', 'Le', 'Gt', 'Ge'}
                                    if not incr_only:
                                        freq_mut = 'the counted frequencies pass through a closure that applies %s to them' % '/'.join(sorted(ops - {'Add', 'Eq', 'Ne', 'Lt', 'Le', 'Gt', 'Ge'}))
                                        good = False
                    lossy = _counting_source(FA, F)
                    if lossy:
                        good = False
                        freq_mut = freq_mut or ('the frequencies are counted over `%s`, which does not yield every element once' % lossy)
                    step = _counting_step(FA, fi, spec)
                    if step:
                        good = False
                        freq_mut = freq_mut or step
                    # the lengths map must not be touched between the coder and craft_wm_codes
                    lengths_local = t['args'][0]['p']['l'] if 'p' in t['args'][0] else None
                    mutated = _other_uses(F, lengths_local, bi)
                    if good and not mutated:
                        out.append(Inst('R-LVL', key, 'ok', t['line'], 'code lengths come unmodified from the minimum-redundancy coder with %d-bit fragments' % frag, props,
                                        sample={'lengths': show(a0)[:160]}))
                    else:
                        why = ('the frequency table is modified before it reaches the coder (%s)' % freq_mut) if freq_mut else \
                            ('lengths passed to craft_wm_codes are `%s`' % show(a0)[:120] if not good else 'the lengths map is modified before craft_wm_codes (%s)' % mutated)
                        out.append(Inst('R-LVL', key, 'violation', t['line'],
                                        'code lengths are not the unmodified output of Coding::from_frequencies*(BitsPerFragment(%d)).code_lengths(): %s' % (frag, why), props))
        # the minimum-redundancy coder is applied ONCE, to the frequencies: a second application (to the code lengths, which
        # have the same map type) turns short codes into heavy weights
        coder_calls = []
        seen_paths = set()
        stack = [f]
        while stack:
            g0 = stack.pop()
            if g0['path'] in seen_paths:
                continue
            seen_paths.add(g0['path'])
            for g in FA.with_closures(g0):
                for b_ in g['blocks']:
                    t_ = b_['t']
                    if t_['k'] == 'call' and 'fn' in t_['f']:
                        fn_ = t_['f']['fn']
                        if 'Coding' in (fn_.get('path', '') + fn_.get('self_ty', '')) and fn_['name'].startswith('from_'):
                            coder_calls.append((g0['name'], t_.get('line', '')))
                        for c_ in FA.resolve(fn_):
                            if not c_['exported'] and c_['kind'] != 'Closure':
                                stack.append(c_)
        per_spec = len(list(FA.specs(f))) or 1
        distinct = sorted(set(coder_calls))
        if len(distinct) > 1 and len({n for n, _ in distinct}) > 1:
            out.append(Inst('R-LVL', 'R-LVL|%s::new|coder applied once' % base, 'violation', distinct[-1][1],
                            'the minimum-redundancy coder is built in `%s` and again in `%s`: the second one takes the first one\'s code lengths for weights, frequent symbols end up with the long codes' % (distinct[0][0], distinct[-1][0]), props))
        elif distinct:
            out.append(Inst('R-LVL', 'R-LVL|%s::new|coder applied once' % base, 'ok', distinct[0][1], 'one coder construction on the construction path', props))
        if n_push == 0:
            out.append(Inst('R-LVL', 'R-LVL|%s::new|level write guarded' % base, 'violation', f['span'], 'no level write found (anchor lost)', props))
        if n_craft == 0:
            out.append(Inst('R-LVL', 'R-LVL|%s::new|optimal lengths' % base, 'violation', f['span'], 'no call to craft_wm_codes found (anchor lost)', props))
    return out


def _only_entry_use(F, l):
    """Is the `&mut map` in local l used only as the receiver of HashMap::entry (the counting idiom)?"""
    n = 0
    for bi, b in enumerate(F.blocks):
        for s in b['s']:
            for o in rv_operands(s['rv']):
                if 'p' in o and o['p']['l'] == l:
                    return False
        t = b['t']
        if t['k'] == 'call':
            for k, a in enumerate(t['args']):
                if 'p' in a and a['p']['l'] == l:
                    if k == 0 and 'fn' in t['f'] and t['f']['fn']['name'] == 'entry':
                        n += 1
                    else:
                        return False
    return n > 0


def _other_uses(F, ref_local, craft_bb):
    """Is the map behind `ref_local` (a &mut, possibly a reborrow chain) mutably borrowed or written
    anywhere else than for the craft_wm_codes call?"""
    if ref_local is None:
        return ''
    chain = set()
    cur = ref_local
    owner = None
    for _ in range(6):
        ds = F.defs.get(cur, [])
        if len(ds) != 1 or ds[0][1] != 'assign':
            break
        rv = ds[0][2]
        chain.add(cur)
        if rv['k'] == 'ref':
            base = rv['p']['l']
            if rv['p']['proj'] == ['*']:
                cur = base
                continue
            if not rv['p']['proj']:
                owner = base
            break
        if rv['k'] == 'use' and 'p' in rv['a'] and not rv['a']['p']['proj']:
            cur = rv['a']['p']['l']
            continue
        break
    if owner is None:
        return ''
    uses = []
    for bi, b in enumerate(F.blocks):
        for s in b['s']:
            rv = s.get('rv')
            if rv and rv['k'] == 'ref' and rv['p']['l'] == owner and rv.get('mut') and s['lhs']['l'] not in chain:
                if _only_entry_use(F, s['lhs']['l']):
                    continue   # `*map.entry(sym).or_insert(0) += 1`: the counting pass itself
                uses.append('another &mut borrow at %s' % s['line'])
            if 'lhs' in s and s['lhs']['l'] == owner and s['lhs']['proj']:
                uses.append('direct write at %s' % s['line'])
    return '; '.join(uses)


# ---------------------------------------------------------------- R-DEL

ALLOWED_PLUMBING = ('into_iter', 'collect', 'index', 'index_mut', 'as_mut_slice', 'as_mut', 'deref_mut', 'deref', 'borrow_mut', 'from_iter',
                    'copied', 'cloned', 'iter', 'into', 'as_slice', 'as_ref', 'map', 'extend', 'default', 'new')


_DEL_FACTS = [None]


def _pure_conversion_closure(clo):
    """`.map(|v| v.as_())`-style closure: its result is a width conversion of its argument and nothing else (no arithmetic
    on the element, no fallible conversion that panics for some values)."""
    FA = _DEL_FACTS[0]
    if FA is None:
        return True
    r = closure_apply(FA, clo, [('param', '$elem')])
    if r is None:
        return True

    def ok(x):
        if x == ('param', '$elem'):
            return True
        if isinstance(x, tuple) and x:
            if x[0] in ('as_', 'cast'):
                return ok(x[2])
            if x[0] == 'call' and x[1].split('::')[-1] in ('into', 'from', 'clone', 'as_', 'deref', 'borrow', 'to_owned', 'try_into', 'try_from') and len(x[2]) == 1:
                return ok(x[2][0])
            if x[0] == 'call' and x[1].split('::')[-1] in ('expect', 'unwrap') and x[2] and isinstance(x[2][0], tuple) and x[2][0][:1] == ('call',) \
                    and x[2][0][1].split('::')[-1] in ('try_into', 'try_from'):
                return ok(x[2][0])      # a checked conversion that panics on values the target cannot hold (documented)
        return False
    return ok(r)


def _pure_plumbing(t, params):
    """Term consisting only of parameters and collection plumbing (no filtering / truncation / mutation)."""
    if not isinstance(t, tuple) or not t:
        return True
    k = t[0]
    if k == 'param':
        return True
    if k in ('const', 'cexpr', 'fn'):
        return True
    if k == 'call':
        if t[1].split('::')[-1] not in ALLOWED_PLUMBING:
            return False
        return all(_pure_plumbing(x, params) for x in t[2])
    if k == 'agg':
        if 'RangeFull' in t[1]:
            return True
        if t[1].startswith('closure:'):
            return _pure_conversion_closure(t)
        return all(_pure_plumbing(x, params) for x in t[2])
    if k in ('ref', 'deref', 'cast', 'variant'):
        return all(_pure_plumbing(x, params) for x in t[1:] if isinstance(x, tuple))
    if k == 'field':
        return _pure_plumbing(t[1], params)
    return False


DEL_PATHS = [
    # (base, trait last, method, expected callee last segment(s), props)
    ('quadwt::QWaveletTree', 'FromIterator', 'from_iter', ('new',), ['C01', 'C19']),
    ('quadwt::QWaveletTree', 'From', 'from', ('new',), ['C01', 'C19']),
    ('quadwt::huffqwt::HuffQWaveletTree', 'FromIterator', 'from_iter', ('new',), ['C02', 'C19']),
    ('quadwt::huffqwt::HuffQWaveletTree', 'From', 'from', ('new',), ['C02', 'C19']),
    ('binwt::WaveletTree', 'FromIterator', 'from_iter', ('new',), ['C03', 'C19']),
    ('binwt::WaveletTree', 'From', 'from', ('new',), ['C03', 'C19']),
    ('qvector::rs_qvector::RSQVector', 'FromIterator', 'from_iter', ('from', 'new'), ['C05', 'C19']),
    ('qvector::rs_qvector::RSQVector', '', 'new', ('from',), ['C05', 'C19']),
    ('bitvector::rs_narrow::RSNarrow', 'From', 'from', ('new',), ['C06', 'C19']),
    ('bitvector::rs_wide::RSWide', 'From', 'from', ('new',), ['C06', 'C19']),
    ('darray::DArray', 'FromIterator', 'from_iter', ('new',), ['C07', 'C19']),
    ('qvector::QVector', 'FromIterator', 'from_iter', ('build',), ['C13', 'C19']),
    ('bitvector::BitVector', 'FromIterator', 'from_iter', ('into', 'from', 'build'), ['C08', 'C19']),
]


def rule_DEL(FA):
    out = []
    _DEL_FACTS[0] = FA
    for base, tr, name, callees, props in DEL_PATHS:
        cands = [f for f in FA.by_base_name.get((base, name), []) if f['impl_trait'].split('::')[-1] == tr and not f['derived']]
        if not cands:
            out.append(Inst('R-DEL', 'R-DEL|%s::%s::%s' % (base, tr, name), 'violation', '', 'construction path not found (anchor lost)', props))
            continue
        # a construction path may also delegate to another checked construction path of the same type
        # (from_iter -> Self::from(collect) -> new)
        callees = tuple(callees) + tuple(n for b2, _, n, _, _ in DEL_PATHS if b2 == base and n != name)
        for f in cands:
            F = FA.fn(f)
            ret = norm(F.local_term(0))
            params = [('param', f['names'].get(str(k), '_%d' % k)) for k in range(1, f['argc'] + 1)]
            srcty = base_type(f['locals'][1]) if f['argc'] >= 1 else ''
            key = 'R-DEL|%s::%s::%s(%s)' % (base, tr, name, srcty.split('::')[-1] or f['locals'][1][:12])
            ok = ret[0] == 'call' and ret[1].split('::')[-1] in callees and all(_pure_plumbing(a, params) for a in ret[2]) \
                and any(contains(a, params[0]) for a in ret[2])
            if not ok and 'build' in callees:
                # builder shape: b = Builder::default(); b.extend(<whole input>); b.build() / b.into()
                # (private helpers inlined: `collect_into_builder(iter).build()`)
                Fb = FA.fn(FA.inlined(f))
                Fb.dom()
                calls_b = [(bi, t) for bi, t in Fb.calls() if bi in Fb.reach]
                ext = [t for bi, t in calls_b if t['f']['fn']['name'] == 'extend']
                others = [t for bi, t in calls_b if t['f']['fn']['name'] in ('push', 'truncate', 'pop', 'clear', 'take', 'skip', 'filter', 'step_by',
                                                                              'extend_with_zeros', 'set', 'set_bits', 'append_bits', 'resize', 'insert')]
                if len(ext) == 1 and not others:
                    a1 = norm(Fb.operand_term(ext[0]['args'][1]))
                    if _pure_plumbing(a1, params) and contains(a1, params[0]) and any(
                            isinstance(x, tuple) and x and x[0] == 'call' and x[1].split('::')[-1] in ('default', 'new') for x in subterms(ret)):
                        ok = True
            # a construction path that checks its positions pairwise (`windows(2).all(|w| ..)`) checks that they INCREASE:
            # `<=` lets repeated positions through, and two different inputs then build equal values
            if any(t['f']['fn']['name'] == 'windows' for bi, t in F.calls()):
                for cg in FA.with_closures(f)[1:]:
                    ct = norm(FA.fn(cg).local_term(0))
                    if ct[:1] == ('cmp',) and all(isinstance(x, tuple) and x[:1] == ('index',) and x[2][:1] == ('const',) for x in ct[2:4]) and ct[2][1] == ct[3][1]:
                        lo, hi = (ct[2], ct[3]) if ct[2][2][1] < ct[3][2][1] else (ct[3], ct[2])
                        strict = ct[1] == '<' and ct[2] == lo
                        out.append(Inst('R-DEL', key + '|increasing', 'ok' if strict else 'violation', cg['span'],
                                        'consecutive positions are required to satisfy `w[0] < w[1]`' if strict else
                                        'consecutive positions are only required to satisfy `%s`: repeated (or decreasing) positions are accepted, and a sequence with a repeated position builds the same value as the sequence without it' % show(ct), props))
            if ok:
                out.append(Inst('R-DEL', key, 'ok', f['span'], 'returns %s' % show(ret)[:140], props, sample={'return': show(ret)[:200]}))
            else:
                out.append(Inst('R-DEL', key, 'violation', f['span'],
                                'construction path does not return `%s(<whole input>)`: returns `%s`' % ('/'.join(callees), show(ret)[:160]), props,
                                sample={'return': show(ret)[:300]}))
    return out


# ---------------------------------------------------------------- R-SPC

def _spc_fields(FA, f, depth=0):
    """Flow-insensitive backward slice from the return place: which fields of self reach the result
    (through calls, closures passed to adaptors, and index loops)."""
    dep = collections.defaultdict(list)

    def places(o):
        if o and 'p' in o:
            yield o['p']

    def rv_places(rv):
        for k in ('a', 'b'):
            if k in rv and isinstance(rv[k], dict):
                for p in places(rv[k]):
                    yield p
        if 'p' in rv:
            yield rv['p']
        for o in rv.get('ops', []):
            for p in places(o):
                yield p
    for b in f['blocks']:
        for s in b['s']:
            if 'lhs' not in s:
                continue
            dep[s['lhs']['l']].extend(rv_places(s['rv']))
            for e in s['lhs']['proj']:
                if isinstance(e, dict) and 'idx' in e:
                    dep[s['lhs']['l']].append({'l': e['idx'], 'proj': []})
        t = b['t']
        if t['k'] == 'call':
            ps = []
            for a in t['args']:
                ps.extend(places(a))
            dep[t['dest']['l']].extend(ps)
            for a in t['args']:
                if 'p' in a:
                    dep[a['p']['l']].extend(ps)
    seen = set()
    work = [0]
    fields = set()
    while work:
        l = work.pop()
        if l in seen:
            continue
        seen.add(l)
        for p in dep.get(l, []):
            if p['l'] == 1:
                fs = [e['f'] for e in p['proj'] if isinstance(e, dict) and 'f' in e]
                fields.add(fs[0] if fs else '*self')
            for e in p['proj']:
                if isinstance(e, dict) and 'idx' in e:
                    work.append(e['idx'])
            work.append(p['l'])
    return fields


ACCOUNTING = ('space_usage_byte', 'capacity', 'len', 'iter', 'into_iter', 'flatten', 'as_ref', 'as_slice', 'deref')


def _spc_accounted(FA, f):
    """Fields of self that are handed (directly or through iterator plumbing) to a call that measures owned memory:
    space_usage_byte(), capacity(), len() or an iteration over the elements.  `size_of_val(&self.f)` only
    measures the handle."""
    F = FA.fn(f)
    out = set()
    for bi, t in F.calls():
        fn = t['f']['fn']
        if fn['name'] not in ACCOUNTING:
            continue
        for a in t['args']:
            tm = norm(F.operand_term(a))
            for st in subterms(tm):
                if isinstance(st, tuple) and st and st[0] == 'field' and st[1] == SELF:
                    out.add(st[2])
    # indexed loops over a fixed array field: self.f[c].space_usage_byte()
    for b in F.blocks:
        for s2 in b['s']:
            rv = s2.get('rv')
            if rv and rv['k'] == 'ref' and rv['p']['l'] == 1:
                fs = [e['f'] for e in rv['p']['proj'] if isinstance(e, dict) and 'f' in e]
                if fs and any(isinstance(e, dict) and ('idx' in e or 'cidx' in e) for e in rv['p']['proj']):
                    out.add(fs[0])
    return out


def _spc_unscaled_len(FA, fi, adt):
    F = FA.fn(fi)
    ret = norm(F.local_term(0))
    seq = {}
    for x in adt['fields']:
        m = re.search(r'(?:Vec<|Box<\[)(.+?)(?:>|\]>)$', x['ty'])
        if m and m.group(1) not in ('u8', 'i8', 'bool'):
            seq[x['name']] = m.group(1)
    hit = []

    def walk(t, scaled):
        if not isinstance(t, tuple) or not t:
            return
        if t[0] == 'call' and t[1].split('::')[-1] in ('len', 'capacity') and t[2]:
            flds = [st[2] for st in subterms(t[2][0]) if isinstance(st, tuple) and st[:2] == ('field', SELF)]
            if len(flds) == 1 and flds[0] in seq and not scaled and not any(isinstance(st, tuple) and st[:1] == ('index',) for st in subterms(t[2][0])):
                hit.append((flds[0], t[1].split('::')[-1], seq[flds[0]]))
            return
        if t[0] == 'bin' and t[1] in ('Mul', 'Shl'):
            for x in t[2:]:
                walk(x, True)
            return
        if t[0] == 'bin' and t[1] == 'Add' or t[0] == 'cast':
            for x in t[1:]:
                walk(x, scaled)
            return
        # anything else (calls, comparisons, indices): the count is consumed by something that is not the byte total
        return
    walk(ret, False)
    return hit[0] if hit else None


def _spc_not_delegated(FA, fi, adt):
    """(field, type) of a heap-bearing component that is a crate struct with its own SpaceUsage impl but is measured without
    calling its space_usage_byte() (only len() / constants)"""
    spc_types = {i_['self_adt'] for i_ in FA.impls if i_['trait'].endswith('SpaceUsage') and i_.get('self_adt')}
    cands = {}
    for x in adt['fields']:
        if x['tags'] and x['tags'][0].startswith('adt:') and x['tags'][0][4:] in spc_types and x['tags'][0][4:] in FA.adts:
            inner = FA.adts[x['tags'][0][4:]]
            if any(_heap_bearing(FA, y) for y in inner['fields']):
                cands[x['name']] = x['tags'][0][4:]
    if not cands:
        return None
    delegated = set()
    used = set()
    for g in FA.with_closures(fi):
        F = FA.fn(g)
        for bi, t in F.calls():
            if not t['args']:
                continue
            for a in t['args']:
                tm = norm(F.operand_term(a))
                for st in subterms(tm):
                    if isinstance(st, tuple) and st[:2] == ('field', SELF) and st[2] in cands:
                        used.add(st[2])
                        if t['f']['fn']['name'] == 'space_usage_byte':
                            delegated.add(st[2])
    for fld in sorted(used - delegated):
        return (fld, cands[fld])
    return None


def _spc_overwritten(FA, fi):
    """line of an assignment to the returned accumulator that is dominated by an earlier assignment of it and does not
    read its previous value (`space = p.space_usage_byte()` instead of `space += ..`)"""
    F = FA.fn(fi)
    dom = F.dom()
    # the returned local, through plain moves
    acc = 0
    for _ in range(4):
        ds = [d for d in F.defs.get(acc, []) if d[0] in F.reach]
        if len(ds) == 1 and ds[0][1] == 'assign' and ds[0][2]['k'] == 'use' and 'p' in ds[0][2]['a'] and not ds[0][2]['a']['p']['proj']:
            acc = ds[0][2]['a']['p']['l']
        else:
            break
    ds = [d for d in F.defs.get(acc, []) if d[0] in F.reach]
    if len(ds) < 2:
        return None
    for d in ds:
        earlier = [e for e in ds if e is not d and (e[0] in dom[d[0]]) and (e[0] != d[0] or e[3] < d[3])]
        if not earlier:
            continue
        ops = rv_operands(d[2]) if d[1] == 'assign' else list(d[2]['args'])
        S = backward_slice(F, [o['p']['l'] for o in ops if 'p' in o], through_calls=False)
        # `acc = move (tmp.0)` with tmp = Add(acc, x): the slice of the new value contains acc itself
        if acc in S or any(acc in _operand_locals(o) for o in ops):
            continue
        return F.blocks[d[0]]['s'][d[3]].get('line', '') if d[1] == 'assign' else d[2].get('line', '')
    return None


def _spc_single_element(FA, fi, adt):
    """(field, accessor) when a Vec / boxed-slice field of heap-bearing components is measured through a single element
    (`first()`, `last()`, `[0]`, `get(0)`) whose size is then used for the whole field."""
    varlen = {x['name'] for x in adt['fields'] if any(t in ('adt:std::vec::Vec', 'slice') for t in x['tags']) and not any(t.startswith('array:') for t in x['tags'][:1])}
    single = None
    iterated = set()
    for g in FA.with_closures(fi):
        F = FA.fn(g)
        for bi, t in F.calls():
            nm = t['f']['fn']['name']
            if not t['args']:
                continue
            recv = norm(F.operand_term(t['args'][0]))
            flds = {x[2] for x in subterms(recv) if isinstance(x, tuple) and x[:2] == ('field', SELF) and x[2] in varlen}
            if not flds:
                continue
            if nm in ('iter', 'into_iter', 'iter_mut', 'space_usage_byte') and recv[:2] == ('field', SELF):
                iterated |= flds
            if nm in ('first', 'last', 'first_mut', 'last_mut') and recv[:2] == ('field', SELF):
                single = single or (sorted(flds)[0], nm + '()')
            if nm in ('get', 'index', 'get_unchecked') and len(t['args']) == 2 and recv[:2] == ('field', SELF):
                k = norm(F.operand_term(t['args'][1]))
                if k[:1] == ('const',):
                    single = single or (sorted(flds)[0], '%s(%s)' % (nm, k[1]))
    if single and single[0] not in iterated:
        return single
    return None


SPC_EXCEPTIONS = {
    ('quadwt::huffqwt::HuffQWaveletTree', 'codes_encode'): 'accounted by a constant; the property grants sigma-proportional slack for the code tables',
    ('binwt::WaveletTree', 'codes_encode'): 'accounted by a constant; the property grants sigma-proportional slack for the code tables',
}


def _component_params(FA, base):
    """Type parameters that stand for heap-owning components: those bound by SpaceUsage in the type's
    own SpaceUsage impl (the element type T is a scalar and is not)."""
    out = set()
    for i in FA.impls:
        if i['self_adt'] == base and i['trait'].endswith('SpaceUsage'):
            for p in i.get('preds', []):
                m = re.search(r'TraitPredicate\(<(\w+) as space_usage::SpaceUsage>', p)
                if m:
                    out.add(m.group(1))
    return out


def _heap_bearing(FA, fld, comp=()):
    tags = fld['tags']
    if not tags:
        return False
    if tags[0] == 'adt:std::marker::PhantomData':
        return False
    if tags[0].startswith('param:'):
        return tags[0][6:] in comp
    for t in tags:
        if t in ('adt:std::vec::Vec', 'adt:std::boxed::Box', 'slice'):
            return True
        if t.startswith('adt:') and t[4:] in FA.adts:
            # nested crate struct with heap
            inner = FA.adts[t[4:]]
            if any(_heap_bearing(FA, x) for x in inner['fields']):
                return True
    return False


def rule_SPC(FA):
    out = []
    props = ['C16']
    n = 0
    for f in FA.lib_fns(include_closures=False):
        if f['name'] != 'space_usage_byte' or 'SpaceUsage' not in f['impl_trait'] or f['impl_self'] == 'Self':
            continue
        base = f['_base']
        adt = FA.adts.get(base)
        if adt is None:
            # Vec<T> / Box<[T]> / primitives
            if f['impl_self'].startswith('std::vec::Vec'):
                names = [t['f']['fn']['name'] for b in f['blocks'] for t in [b['t']] if t['k'] == 'call' and 'fn' in t['f']]
                ok = 'capacity' in names
                out.append(Inst('R-SPC', 'R-SPC|Vec<T>', 'ok' if ok else 'violation', f['span'],
                                'Vec<T> accounts capacity()' if ok else 'Vec<T> does not account its capacity() (retained memory is capacity, not len)', props))
                sized = any((t['f']['fn']['name'] in ('size_of', 'size_of_val') and not any('Vec' in str(g) for g in t['f']['fn'].get('gargs', [])[:1]))
                            or 'Layout' in t['f']['fn'].get('path', '')
                            for b in f['blocks'] for t in [b['t']] if t['k'] == 'call' and 'fn' in t['f'])
                if ok and not sized:
                    out.append(Inst('R-SPC', 'R-SPC|Vec<T>|empty', 'violation', f['span'],
                                    'Vec<T> multiplies capacity() by a per-element size that is never size_of::<T>() (it is taken from an element): an empty vector with reserved capacity has no element to ask and reports only its header', props))
            elif f['impl_self'].startswith('std::boxed::Box'):
                names = [t['f']['fn']['name'] for b in f['blocks'] for t in [b['t']] if t['k'] == 'call' and 'fn' in t['f']]
                # the elements are visited and asked (an adaptor chain, or a loop that calls space_usage_byte on what it yields)
                deep = [t['f']['fn']['name'] for g in FA.with_closures(f) for b in g['blocks'] for t in [b['t']] if t['k'] == 'call' and 'fn' in t['f']]
                ok = 'sum' in names or 'fold' in names or ('space_usage_byte' in deep and any(n in deep for n in ('next', 'for_each', 'iter', 'into_iter')))
                out.append(Inst('R-SPC', 'R-SPC|Box<[T]>', 'ok' if ok else 'violation', f['span'],
                                'Box<[T]> sums its elements' if ok else 'Box<[T]> does not sum its elements', props))
            continue
        n += 1
        fi = FA.inlined(f)   # private accounting helpers (`boxed_bytes(&self.f)`) are part of the body
        got = _spc_fields(FA, fi)
        comp = _component_params(FA, base)
        heap = [x['name'] for x in adt['fields'] if _heap_bearing(FA, x, comp)]
        acc = _spc_accounted(FA, fi)
        missing = [h for h in heap if (h not in got or h not in acc) and '*self' not in got and (base, h) not in SPC_EXCEPTIONS]
        key = 'R-SPC|%s' % base
        # a fixed-size record that reports a constant: the constant is its size in memory (alignment padding included)
        lay = (FA.layouts.get(base) or {}).get('layout') if hasattr(FA, 'layouts') else None
        sm = summary(FA, f)
        if lay and not heap and isinstance(sm, tuple) and sm[:1] == ('const',) and isinstance(sm[1], int):
            if sm[1] != lay['size']:
                out.append(Inst('R-SPC', key + '|size', 'violation', f['span'],
                                'space_usage_byte() of %s is the constant %d but a value of the type occupies %d bytes (size_of, alignment %d)' % (base.split('::')[-1], sm[1], lay['size'], lay['align']), props))
            else:
                out.append(Inst('R-SPC', key + '|size', 'ok', f['span'], 'constant %d = size_of::<%s>()' % (sm[1], base.split('::')[-1]), props))
        # an element COUNT added to a byte total: `self.f.len()` of a sequence whose elements are wider than a byte
        unscaled = _spc_unscaled_len(FA, fi, adt)
        if unscaled:
            out.append(Inst('R-SPC', key + '|bytes', 'violation', f['span'],
                            'space_usage_byte() of %s adds `self.%s.%s()` (a number of elements of type %s) to a total in bytes without multiplying by the element size' % (
                                base.split('::')[-1], unscaled[0], unscaled[1], unscaled[2]), props))
        nodeleg = _spc_not_delegated(FA, fi, adt)
        if nodeleg and not missing:
            out.append(Inst('R-SPC', key, 'violation', f['span'],
                            'space_usage_byte() of %s does not ask its component `%s` (%s) for its own space_usage_byte(): a size derived from its length alone cannot follow the component\'s layout (block size, lines per block)' % (
                                base.split('::')[-1], nodeleg[0], nodeleg[1].split('::')[-1]), props))
            continue
        over = _spc_overwritten(FA, fi)
        if over:
            out.append(Inst('R-SPC', key, 'violation', over,
                            'the running total of space_usage_byte() of %s is overwritten (`total = x`) after parts were already added to it: those parts drop out of the report on that path' % base.split('::')[-1], props))
            continue
        single = _spc_single_element(FA, fi, adt)
        if single and not missing:
            out.append(Inst('R-SPC', key, 'violation', f['span'],
                            'space_usage_byte() of %s measures ONE element of the variable-length field `%s` (`%s`) instead of all of them: components differ in size, the report is not the memory retained' % (
                                base.split('::')[-1], single[0], single[1]), props, sample={'heap_fields': heap}))
            continue
        if missing:
            out.append(Inst('R-SPC', key, 'violation', f['span'],
                            'space_usage_byte() of %s does not account heap-bearing field(s) %s' % (base.split('::')[-1], ', '.join(missing)), props,
                            sample={'heap_fields': heap, 'flowing_into_result': sorted(got)}))
        else:
            out.append(Inst('R-SPC', key, 'ok', f['span'], 'heap-bearing fields %s all flow into the result' % (', '.join(heap) or '(none)'), props,
                            nontrivial=bool(heap), sample={'heap_fields': heap, 'flowing_into_result': sorted(got)}))
    # scaled variants
    for nm, div in (('space_usage_KiB', 1024.0), ('space_usage_MiB', 1024.0 ** 2), ('space_usage_GiB', 1024.0 ** 3)):
        f = FA.fns.get('space_usage::SpaceUsage::' + nm) or FA.fns.get('SpaceUsage::' + nm)
        if f is None:
            cand = [g for g in FA.fns.values() if g['name'] == nm and g['impl_self'] == 'Self']
            f = cand[0] if cand else None
        key = 'R-SPC|%s' % nm
        if f is None:
            out.append(Inst('R-SPC', key, 'violation', '', 'default method not found (anchor lost)', props))
            continue
        F = FA.fn(f)
        ret = norm(F.local_term(0))
        ok = False
        if ret[0] == 'bin' and ret[1] == 'Div':
            num, den = ret[2], ret[3]
            calls_byte = any(isinstance(x, tuple) and x and x[0] == 'call' and x[1].split('::')[-1] == 'space_usage_byte' for x in subterms(num))
            dv = _float_const(den)
            ok = calls_byte and dv == div
        out.append(Inst('R-SPC', key, 'ok' if ok else 'violation', f['span'],
                        '%s = space_usage_byte() / %g' % (nm, div) if ok else '%s is `%s`, expected space_usage_byte() / %g' % (nm, show(ret)[:100], div), props))
    return out


def _float_const(t):
    t = norm(t)
    t = strip_casts(t)
    if isinstance(t, tuple) and t[:1] == ('call',) and t[1].split('::')[-1] in ('from', 'into') and len(t[2]) == 1:
        t = strip_casts(t[2][0])     # f64::from(1024u32)
    if t[0] == 'const':
        return float(t[1])
    if t[0] == 'cexpr':
        try:
            return float(t[1].replace('_f64', '').replace('f64', ''))
        except ValueError:
            return None
    return None


# ---------------------------------------------------------------- R-NEG

def _raw_load(t):
    """Term is a stored word read as it is: slice/array element, get_word(..), field or parameter."""
    t = strip_ref(t)
    if not isinstance(t, tuple) or not t:
        return False
    if t[0] in ('index', 'param', 'field', 'variant'):
        return True
    if t[0] == 'call' and t[1].split('::')[-1] in ('get_word', 'get_unchecked', 'index', 'deref', 'clone', 'unwrap'):
        return True
    return False


def rule_NEG(FA):
    out = []
    n = 0
    for f in FA.lib_fns(include_closures=False):
        if 'BIT' not in FA.const_params(f):
            continue
        props = ['C08', 'C07'] if 'bitvector' in f['path'] else ['C07']
        for spec in FA.specs(f):
            if spec.get('BIT', False):
                continue
            F = FA.fn(f, spec)
            F.dom()
            for bi, b in enumerate(F.blocks):
                if bi not in F.reach:
                    continue
                for s in b['s']:
                    rv = s.get('rv')
                    if not rv or rv['k'] != 'un' or rv['op'] != 'Not':
                        continue
                    a = rv['a']
                    if 'p' not in a:
                        continue
                    lt = F.locals[a['p']['l']] if not a['p']['proj'] else ''
                    if a['p']['proj'] or lt not in ('u64', 'u128', 'usize', 'u32'):
                        continue
                    n += 1
                    ds = [d for d in F.defs.get(a['p']['l'], []) if d[0] in F.reach]
                    terms = []
                    for d in ds:
                        terms.append(norm(F.rvalue_term(d[2])) if d[1] == 'assign' else norm(F.call_term(d[2])))
                    # a copy of a loop-carried variable: look at that variable's definitions instead
                    flat = []
                    dom = F.dom()
                    for t in terms:
                        if t[0] == 'unknown':
                            for l2, nm in F.names.items():
                                if nm == t[1]:
                                    cands = []
                                    for d in F.defs.get(l2, []):
                                        if d[0] in F.reach:
                                            tt = norm(F.rvalue_term(d[2])) if d[1] == 'assign' else norm(F.call_term(d[2]))
                                            if not (tt[0] == 'un' and tt[1] == 'Not'):
                                                cands.append((d[0], tt))
                                    # the definition that reaches this complement: the closest dominating one
                                    domi = [c for c in cands if c[0] in dom[bi] and c[0] != bi]
                                    if domi:
                                        best = max(domi, key=lambda c: len(dom[c[0]]))
                                        flat.append(best[1])
                                    else:
                                        flat.extend(c[1] for c in cands)
                        else:
                            flat.append(t)
                    bad = [t for t in flat if not _raw_load(t) and t[0] != 'unknown']
                    key = 'R-NEG|%s%s' % (fn_key(f), spec_key(spec))
                    if bad:
                        out.append(Inst('R-NEG', key, 'violation', s['line'],
                                        'the complement used to find zeros is taken of `%s`, not of the stored word: bits shifted or masked in as 0 become spurious zeros' % show(bad[0])[:80], props,
                                        sample={'operand': [show(t)[:100] for t in flat]}))
                    else:
                        out.append(Inst('R-NEG', key, 'ok', s['line'], 'complement of the stored word', props, sample={'operand': [show(t)[:100] for t in flat]}))
    if n == 0:
        out.append(Inst('R-NEG', 'R-NEG|anchors', 'violation', '', 'no word complement found in BIT = false specialisations (anchor lost)', ['C08', 'C07']))
    # a decision taken in the BIT = false specialisation from a count of ONES alone (`if bv.count_ones() == 0 { return empty }`)
    # is a decision about the wrong kind of bit: for zeros the relevant count is len - ones
    ONES_ACC = ('count_ones', 'n_ones')
    for f in FA.lib_fns(include_closures=False):
        if 'BIT' not in FA.const_params(f):
            continue
        props = ['C08', 'C07'] if 'bitvector' in f['path'] else ['C07']
        for spec in FA.specs(f):
            if spec.get('BIT', False):
                continue
            F = FA.fn(f, spec)
            F.dom()
            bad = None
            for bi, b in enumerate(F.blocks):
                if bi not in F.reach or b['t']['k'] != 'switch' or bi in F.debug_switches():
                    continue
                d = norm(F.operand_term(b['t']['d']))
                for a in term_atoms(d):
                    if a[0] not in ('==', '!=', '<', '<=') or not isinstance(a[2], tuple):
                        continue
                    for x, y in ((a[1], a[2]), (a[2], a[1])):
                        xs = strip_casts(x)
                        ones_cnt = isinstance(xs, tuple) and ((xs[:1] == ('call',) and xs[1].split('::')[-1] in ONES_ACC) or (xs[:1] == ('field',) and xs[2] in ONES_ACC))
                        if ones_cnt and strip_casts(y)[:1] == ('const',):
                            bad = (b['t'].get('line', ''), show(xs)[:50])
            key = 'R-NEG|%s%s|count kind' % (fn_key(f), spec_key(spec))
            if bad:
                out.append(Inst('R-NEG', key, 'violation', bad[0],
                                'the zeros flavour of `%s` branches on `%s` compared with a constant: the number of ONES decides nothing about the zeros (a vector without ones consists of zeros only)' % (f['name'], bad[1]), props))
    # the two specialisations of a BIT-generic function differ only by that complement: the all-ones masks that cut the
    # first / last word are shifted the same way for ones and for zeros
    for f in FA.lib_fns(include_closures=False):
        if 'BIT' not in FA.const_params(f):
            continue
        props = ['C08', 'C07'] if 'bitvector' in f['path'] else ['C07']
        shapes = {}
        for spec in FA.specs(f):
            F = FA.fn(f, spec)
            F.dom()
            sh = []
            for bi, b in enumerate(F.blocks):
                if bi not in F.reach:
                    continue
                for s_ in b['s']:
                    rv = s_.get('rv')
                    if rv and rv['k'] == 'bin' and rv['op'].replace('Unchecked', '') in ('Shl', 'Shr'):
                        a = strip_casts(norm(F.operand_term(rv['a'])))
                        if a[:1] == ('const',) and isinstance(a[1], int) and a[1] in (0xFFFFFFFFFFFFFFFF, (1 << 128) - 1, 0xFFFFFFFF):
                            sh.append((rv['op'].replace('Unchecked', ''), s_.get('line', '')))
            shapes[bool(spec.get('BIT', False))] = sh
        if len(shapes) == 2 and (shapes[True] or shapes[False]):
            k1, k0 = sorted(x[0] for x in shapes[True]), sorted(x[0] for x in shapes[False])
            key = 'R-NEG|%s|mask direction' % fn_key(f)
            if k1 != k0 and len(k1) == len(k0):
                line = next((l for (o, l), o0 in zip(sorted(shapes[True]), k0) if o != o0), f['span'])
                out.append(Inst('R-NEG', key, 'violation', line,
                                'the all-ones mask is shifted %s when looking for ones and %s when looking for zeros: the two specialisations must cut the same bits of the word' % ('/'.join(k1), '/'.join(k0)), props))
            elif k1 == k0:
                out.append(Inst('R-NEG', key, 'ok', f['span'], 'all-ones masks shifted alike in both specialisations (%s)' % '/'.join(k1), props))
    return out


# ---------------------------------------------------------------- R-OBJ

def rule_OBJ(FA):
    """A function that is handed a component by reference (`inventories: &Inventories<BIT>`) must use THAT object: reading a
    field of `self` of the same type in the same body (with private helpers inlined) contradicts the parameter -- the
    function is generic in which component it serves but part of it is wired to a fixed one (select0 answered from the
    ones' tables).  Engler's contradiction rule; no instance exists on the reviewed tree."""
    out = []
    n = 0
    for f in FA.lib_fns(include_closures=False):
        if f['argc'] < 2 or not f.get('_base') or f['_base'] not in FA.adts:
            continue
        self_adt = FA.adts[f['_base']]
        if not f['locals'][1].lstrip('&').replace('mut ', '').startswith(f['_base'].split('::')[-1]) and base_type(f['locals'][1].lstrip('&').replace('mut ', '')) != f['_base']:
            continue
        ptypes = {}
        for k in range(2, f['argc'] + 1):
            ty = f['locals'][k]
            if not ty.startswith('&'):
                continue
            b = base_type(ty.lstrip('&').replace('mut ', ''))
            if b in FA.adts and b != f['_base']:
                ptypes[b] = f['names'].get(str(k), '_%d' % k)
        if not ptypes:
            continue
        same = {}
        for fld in self_adt['fields']:
            for tg in fld['tags']:
                if tg.startswith('adt:') and tg[4:] in ptypes:
                    same[fld['name']] = tg[4:]
        if not same:
            continue
        n += 1
        G = FA.inlined(f)
        F = FA.fn(G)
        F.dom()
        hits = []
        for bi, b in enumerate(F.blocks):
            if bi not in F.reach:
                continue
            ops = []
            for s in b['s']:
                ops.extend(rv_operands(s['rv']))
            t = b['t']
            if t['k'] == 'call':
                ops.extend(t['args'])
            for o in ops:
                if 'p' not in o:
                    continue
                tm = norm(F.place_term(o['p']))
                for st in subterms(tm):
                    if isinstance(st, tuple) and st[:2] == ('field', SELF) and st[2] in same:
                        hits.append((st[2], b.get('origin', f['path']), (b['s'][0]['line'] if b['s'] else t.get('line', ''))))
        key = 'R-OBJ|%s' % fn_key(f)
        props = props_by_module(fn_key(f))
        if hits:
            fld, origin, line = hits[0]
            out.append(Inst('R-OBJ', key, 'violation', line,
                            '`%s` receives `%s: &%s` but also reads `self.%s` of the same type%s: the work is not done on the object it was given' % (
                                f['name'], ptypes[same[fld]], same[fld].split('::')[-1], fld,
                                (' (in helper %s)' % origin.split('::')[-1]) if origin != f['path'] else ''), props))
        else:
            out.append(Inst('R-OBJ', key, 'ok', f['span'], 'uses only the `%s` it is given (fields of the same type on self: %s)' % (
                ', '.join(sorted(ptypes.values())), ', '.join(sorted(same))), props))
    return out


def props_by_module(path):
    from .r_arith import props_of_module
    return props_of_module(path)


# ---------------------------------------------------------------- R-ALL

EXACT_CHUNKS = ('chunks_exact', 'chunks_exact_mut', 'rchunks_exact', 'rchunks_exact_mut', 'array_chunks', 'as_chunks')


def rule_ALL(FA):
    """Every element is visited: an iteration in exact chunks (`chunks_exact(k)` ..) silently skips the last len % k
    elements unless the remainder is consumed as well (`.remainder()` / `into_remainder()`), or the length is a multiple of
    k by construction (a fixed array whose length divides).  No instance exists on the reviewed tree; the rule guards
    "process two words per step"-style optimisations of the word-level primitives and scans."""
    out = []
    for f in FA.lib_fns():
        F = FA.fn(f)
        calls = list(F.calls())
        has_rem = any(t['f']['fn']['name'] in ('remainder', 'into_remainder') for _, t in calls)
        for bi, t in calls:
            fn = t['f']['fn']
            if fn['name'] not in EXACT_CHUNKS or fn.get('local'):
                continue
            pf = FA.closure_parent(f)
            key = 'R-ALL|%s|%s' % (fn_key(pf), fn['name'])
            k = norm(F.operand_term(t['args'][1])) if len(t['args']) > 1 else ('?',)
            recv_ty = F.locals[t['args'][0]['p']['l']] if t['args'] and 'p' in t['args'][0] else ''
            m = re.search(r'\[[^;\]]+; (\d+)\]', recv_ty)
            if m and k[0] == 'const' and k[1] and int(m.group(1)) % k[1] == 0:
                out.append(Inst('R-ALL', key, 'ok', t.get('line', ''), 'array of %s elements in chunks of %d: no remainder' % (m.group(1), k[1]), props_by_module(fn_key(pf))))
            elif has_rem:
                out.append(Inst('R-ALL', key, 'ok', t.get('line', ''), 'the remainder of the exact chunks is consumed', props_by_module(fn_key(pf))))
            else:
                out.append(Inst('R-ALL', key, 'violation', t.get('line', ''),
                                '`%s(%s)` visits only whole chunks and the remainder is never read: the last len %% %s elements are skipped' % (fn['name'], show(k), show(k)),
                                props_by_module(fn_key(pf))))
    if not out:
        out.append(Inst('R-ALL', 'R-ALL|none', 'note', '', 'no exact-chunk iteration in the library', ['C17'], nontrivial=False))
    return out


# ---------------------------------------------------------------- R-SIG

SIG_BASES = {'quadwt::QWaveletTree': ['C01', 'C14'], 'quadwt::huffqwt::HuffQWaveletTree': ['C02', 'C14'], 'binwt::WaveletTree': ['C03', 'C14']}


LEVEL_WIDTH = {'quadwt::QWaveletTree': 2, 'binwt::WaveletTree': 1}


def _level_formula(F, l, width, depth=0):
    from .r_arith import _eval_affine, _decast
    cands = []

    def terms_of(loc, d=0):
        ds = [x for x in F.defs.get(loc, []) if x[0] in F.reach]
        for x in ds:
            if x[1] == 'assign':
                if x[2]['k'] in ('use', 'cast') and 'p' in x[2]['a'] and not x[2]['a']['p']['proj'] and d < 4 and len([y for y in F.defs.get(x[2]['a']['p']['l'], []) if y[0] in F.reach]) > 1:
                    terms_of(x[2]['a']['p']['l'], d + 1)
                else:
                    cands.append((norm(F.rvalue_term(x[2])), x[2].get('line', '')))
    terms_of(l)
    for t, line in cands:
        t = _decast(t)
        msbs = [st for st in subterms(t) if isinstance(st, tuple) and st[:1] == ('call',) and st[1].split('::')[-1] == 'msb']
        if len(set(msbs)) != 1 or has_unknown(t):
            continue
        bad = None
        for m in range(0, 128):
            v = _eval_affine(t, {msbs[0]: m})
            if v is None:
                bad = None
                break
            want = (m + 1 + width - 1) // width
            if v != want:
                bad = (m, v, want)
                break
        else:
            return ('ok', line, 'number of levels `%s` = ceil((msb + 1) / %d) for every msb in 0..127' % (show(t)[:50], width))
        if bad:
            return ('violation', line, 'the number of levels `%s` is %d for a largest symbol of %d bits, where %d fragments of %d bit(s) cover it: %s' % (
                show(t)[:60], bad[1], bad[0] + 1, bad[2], width, 'an extra all-zero level is stored (space)' if bad[1] > bad[2] else 'the top bits of the symbols are lost'))
    return None


def rule_SIG(FA):
    """The stored largest symbol (`sigma`: the bound of the symbol guard, `None for c > max(S)`) is the MAXIMUM of the
    input: the value the constructor stores in the field derives from `Iterator::max` over a plain element iterator of the
    sequence -- not from another reduction that happens to have the same bit width (OR, sum, last element)."""
    out = []
    for base, props in SIG_BASES.items():
        adt = FA.adts.get(base)
        f = (FA.by_base_name.get((base, 'new'), []) or [None])[0]
        key = 'R-SIG|%s::new' % base
        if adt is None or f is None:
            out.append(Inst('R-SIG', key, 'violation', '', 'type or constructor not found (anchor lost)', props))
            continue
        names = [x['name'] for x in adt['fields']]
        if 'sigma' not in names:
            out.append(Inst('R-SIG', key, 'note', adt['span'], 'no field named sigma', props, nontrivial=False))
            continue
        fidx = names.index('sigma')
        F = FA.fn(FA.inlined(f))
        F.dom()
        verdicts = []
        for bi, b in enumerate(F.blocks):
            if bi not in F.reach:
                continue
            for st in b['s']:
                rv = st['rv']
                if rv['k'] == 'agg' and rv['kind'].get('adt') == base and fidx < len(rv['ops']):
                    o = rv['ops'][fidx]
                    if 'p' not in o:
                        continue   # a constant (empty tree)
                    tm = norm(F.operand_term(o))
                    if tm[:1] == ('call',) and tm[1].split('::')[-1] in ('default', 'zero', 'new'):
                        continue
                    # the number of levels is computed from the bit length of that same sigma (not of sigma + 1, ...)
                    if 'n_levels' in names and names.index('n_levels') < len(rv['ops']) and 'p' in rv['ops'][names.index('n_levels')]:
                        SL = backward_slice(F, [rv['ops'][names.index('n_levels')]['p']['l']])
                        for l2 in SL:
                            for d2 in F.defs.get(l2, []):
                                if d2[1] == 'call' and 'fn' in d2[2]['f'] and d2[2]['f']['fn']['name'] in ('msb', 'leading_zeros', 'ilog2', 'checked_ilog2') and d2[2]['args']:
                                    a2 = strip_casts(norm(F.operand_term(d2[2]['args'][0])))
                                    if a2 != strip_casts(tm) and contains(a2, strip_casts(tm)) and a2[:1] in (('call',), ('bin',)):
                                        verdicts.append(('violation', d2[2].get('line', st['line']),
                                                         'the number of levels is computed from the bit length of `%s`, not of the stored largest symbol `%s`: an extra (or missing) level for alphabets whose largest symbol is 2^k - 1' % (show(a2)[:60], show(tm)[:40])))
                    # ... and it is the smallest number of fragments that covers that bit length: ceil((msb + 1) / width),
                    # evaluated on the constructor's own formula for every msb in 0..127
                    if 'n_levels' in names and names.index('n_levels') < len(rv['ops']) and 'p' in rv['ops'][names.index('n_levels')] and base in LEVEL_WIDTH:
                        v = _level_formula(F, rv['ops'][names.index('n_levels')]['p']['l'], LEVEL_WIDTH[base])
                        if v:
                            verdicts.append(v)
                    S = backward_slice(F, [o['p']['l']])
                    red = []
                    for l in S:
                        for d in F.defs.get(l, []):
                            if d[1] == 'call' and 'fn' in d[2]['f']:
                                red.append((d[2]['f']['fn']['name'], d[2]))
                    names_r = [n for n, _ in red]
                    mx = [t for n, t in red if n in ('max', 'max_by', 'max_by_key')]
                    other = [n for n in names_r if n in ('fold', 'reduce', 'sum', 'product', 'min', 'last', 'try_fold', 'min_by', 'min_by_key')]
                    if mx and not other:
                        src = norm(F.operand_term(mx[0]['args'][0]))
                        bad = _lossy_call(src)
                        if bad:
                            verdicts.append(('violation', st['line'], 'sigma is the maximum over `%s(..)`, which does not yield every element' % bad))
                        else:
                            verdicts.append(('ok', st['line'], 'sigma = max over %s' % show(src)[:60]))
                    elif other:
                        verdicts.append(('violation', st['line'], 'sigma is computed by `%s`, not by `max`: a value with the same bit width but larger than the largest symbol makes rank/select accept symbols that do not occur' % other[0]))
                    elif tm[:1] == ('param',) or any(isinstance(x, tuple) and x[:1] == ('param',) for x in subterms(tm)) and not names_r:
                        verdicts.append(('note', st['line'], 'sigma taken from a parameter'))
                    else:
                        verdicts.append(('note', st['line'], 'sigma computed without an iterator reduction (`%s`): not decided' % show(tm)[:60]))
        if not verdicts:
            out.append(Inst('R-SIG', key, 'violation', f['span'], 'no construction of %s with a computed sigma found (anchor lost)' % base.split('::')[-1], props))
        for stt, line, detail in verdicts:
            out.append(Inst('R-SIG', key, stt, line, detail, props, nontrivial=(stt != 'note')))
    return out


# ---------------------------------------------------------------- R-PRE

def _entry_asserts(FA, g):
    """[(param index (0-based incl. self), op, const)] for `assert!(param <op> CONST)` made unconditionally at the start of g"""
    G = FA.fn(g)
    G.dom()
    out = []
    for bi, b in enumerate(G.blocks):
        if bi not in G.reach:
            continue
        t = b['t']
        if t['k'] != 'switch':
            continue
        # one arm must run into a panic raised by assert! (not debug_assert!)
        is_assert = False
        for to in [a[1] for a in t['arms']] + [t['else']]:
            cur = to
            for _ in range(4):
                tt = G.blocks[cur]['t']
                if tt['k'] == 'call':
                    ms = tt.get('macros', [])
                    if tt['to'] < 0 and any(m == 'assert' for m in ms) and not any(m.startswith('debug_assert') for m in ms):
                        is_assert = True
                    break
                if tt['k'] == 'goto':
                    cur = tt['to']
                else:
                    break
        if not is_assert or bi in G.debug_switches():
            continue
        # unconditional: every dominating switch is itself one of these asserts or a loop-free straight line
        if any(a[0] in ('is', 'isnot') for a in path_atoms(G, bi)):
            continue
        # the surviving arm's condition
        surv = [s2 for s2 in G.succ[bi]]
        for to in surv:
            tt = G.blocks[to]['t']
            dead = tt['k'] == 'call' and tt['to'] < 0
            if dead:
                continue
            for a in path_atoms(G, to):
                if a[0] in ('<', '<=') and a[1][:1] == ('param',) and a[2][:1] == ('const',):
                    names = {v: int(k) - 1 for k, v in g['names'].items() if 1 <= int(k) <= g['argc']}
                    if a[1][1] in names and (names[a[1][1]], a[0], a[2][1]) not in out:
                        out.append((names[a[1][1]], a[0], a[2][1]))
    return out


def rule_PRE(FA):
    """Caller / callee agreement on a bound: when a crate function asserts `p <= C` on entry and a call site guards the same
    argument with a *different* constant (`if id < 7 { f(id) }` where f asserts `id < 8`), one of the two beliefs is wrong
    (Engler): a stricter caller silently skips valid work -- a sentinel never written --, a laxer one runs into the assert."""
    out = []
    pre = {}
    for g in FA.lib_fns(include_closures=False):
        a = _entry_asserts(FA, g)
        if a:
            pre[g['path']] = (g, a)
    for f in FA.lib_fns():
        for spec in FA.specs(f):
            F = FA.fn(f, spec)
            for bi, t in F.calls():
                fn = t['f']['fn']
                if not (fn.get('local') or fn.get('crate') == 'qwt'):
                    continue
                cands = FA.resolve(fn)
                if len(cands) != 1 or cands[0]['path'] not in pre:
                    continue
                g, asserts = pre[cands[0]['path']]
                atoms = path_atoms(F, bi)
                for k, op, c in asserts:
                    if k >= len(t['args']):
                        continue
                    arg = norm(F.operand_term(t['args'][k]))
                    key = 'R-PRE|%s -> %s|#%d' % (fn_key(FA.closure_parent(f)), fn_key(g), k)
                    mine = [(a[0], a[2][1]) for a in atoms if a[0] in ('<', '<=') and a[1] == arg and a[2][:1] == ('const',)]
                    if not mine:
                        continue
                    lim_callee = c if op == '<=' else c - 1
                    lims = [(cc if o == '<=' else cc - 1) for o, cc in mine]
                    props = props_by_module(fn_key(FA.closure_parent(f)))
                    if all(l == lim_callee for l in lims):
                        out.append(Inst('R-PRE', key, 'ok', t.get('line', ''), 'caller guards `%s <= %d`, callee asserts the same bound' % (show(arg)[:40], lim_callee), props))
                    else:
                        l = [x for x in lims if x != lim_callee][0]
                        out.append(Inst('R-PRE', key, 'violation', t.get('line', ''),
                                        'the call of `%s` is guarded by `%s <= %d` but `%s` itself accepts `<= %d` (assert on entry): %s' % (
                                            g['name'], show(arg)[:40], l, g['name'], lim_callee,
                                            'the last valid value is never passed (a block / sentinel that is never written)' if l < lim_callee else 'the callee panics for the values in between'), props))
    if not out:
        out.append(Inst('R-PRE', 'R-PRE|none', 'note', '', 'no call site guards an argument that the callee asserts', ['C04'], nontrivial=False))
    return out
