"""Thorough tier: the quick rules plus (1) the self-test of the checker restricted to the property
(seeded defects must be reported, benign refactors must stay silent) and (2) the type-level witness
crate (compile-pass obligations and compile_fail doctests, discharged by rustc)."""
import json
import os
import shutil
import subprocess
import sys
import tempfile

from .report import Inst

VERIF = os.path.dirname(os.path.dirname(os.path.dirname(os.path.abspath(__file__))))
WITNESS_PROPS = {'C18', 'C04', 'C10', 'C11'}


def run_witness(repo):
    """cargo +nightly test --doc on a scratch copy of the witness crate (path dependency on /repo)."""
    repo = repo or os.environ.get('QWT_REPO', '/repo')
    d = tempfile.mkdtemp(prefix='qlint-witness-')
    try:
        shutil.copytree(os.path.join(VERIF, 'witness', 'src'), os.path.join(d, 'src'))
        toml = open(os.path.join(VERIF, 'witness', 'Cargo.toml')).read().replace('path = "/repo"', 'path = "%s"' % repo)
        toml = toml.replace('[dependencies]', '[dependencies]\nserde = "1"')
        open(os.path.join(d, 'Cargo.toml'), 'w').write(toml)
        shutil.copy2(os.path.join(VERIF, 'witness', 'rust-toolchain.toml'), os.path.join(d, 'rust-toolchain.toml'))
        if os.path.exists(os.path.join(repo, 'Cargo.lock')):
            shutil.copy2(os.path.join(repo, 'Cargo.lock'), os.path.join(d, 'Cargo.lock'))
        env = dict(os.environ, CARGO_NET_OFFLINE='true', CARGO_TARGET_DIR=os.path.join(d, 'target'))
        env.pop('RUSTC_WORKSPACE_WRAPPER', None)
        r1 = subprocess.run(['cargo', '+nightly', 'check', '--offline', '--lib'], cwd=d, env=env, stdout=subprocess.PIPE, stderr=subprocess.STDOUT, text=True)
        r2 = subprocess.run(['cargo', '+nightly', 'test', '--doc', '--offline'], cwd=d, env=env, stdout=subprocess.PIPE, stderr=subprocess.STDOUT, text=True)
        lines = [l for l in r2.stdout.splitlines() if l.startswith('test ') and ' ... ' in l]
        failed = [l for l in lines if not l.endswith('ok')]
        summary = [l for l in r2.stdout.splitlines() if l.startswith('test result')]
        return {'lib_check_rc': r1.returncode, 'doc_rc': r2.returncode, 'doctests': len(lines), 'failed': failed, 'summary': summary,
                'tail': (r1.stdout[-1500:] if r1.returncode else '') + (r2.stdout[-1500:] if r2.returncode else '')}
    finally:
        shutil.rmtree(d, ignore_errors=True)


def extras(prop, facts, repo):
    viol = []
    info = {}
    # (1) self-test restricted to this property
    out_json = tempfile.mktemp(prefix='qlint-selftest-', suffix='.json')
    env = dict(os.environ)
    if repo:
        env['QWT_REPO'] = repo
    r = subprocess.run([sys.executable, os.path.join(VERIF, 'selftest', 'run.py'), '--props', prop, '--jobs', '4', '--json', out_json],
                       env=env, stdout=subprocess.PIPE, stderr=subprocess.STDOUT, text=True)
    try:
        res = json.load(open(out_json))
        os.remove(out_json)
    except Exception:
        res = []
        viol.append(Inst('SELFTEST', 'SELFTEST|%s|runner' % prop, 'violation', '', 'self-test runner failed: %s' % r.stdout[-400:], [prop]))
    bad = [x for x in res if x['status'] in ('MISSED', 'PARTIAL', 'FALSE-ALARM', 'NOCOMPILE')]
    for x in bad:
        viol.append(Inst('SELFTEST', 'SELFTEST|%s|%s' % (prop, x['id']), 'violation', '',
                         'checker self-test: %s is %s (%s)' % (x['id'], x['status'], json.dumps({k: v for k, v in x.items() if k in ('missed', 'other', 'alarms', 'detail')})[:300]), [prop]))
    info['selftest'] = {'seeded_defects_detected': sum(x['status'] == 'DETECTED' for x in res),
                        'benign_refactors_silent': sum(x['status'] == 'SILENT' for x in res),
                        'skipped': [x['id'] for x in res if x['status'] == 'SKIPPED'],
                        'items': [{'id': x['id'], 'status': x['status']} for x in res]}
    # (1b) independently seeded changes (sub-agents) recorded for this property
    out_json = tempfile.mktemp(prefix='qlint-seeded-', suffix='.json')
    r = subprocess.run([sys.executable, os.path.join(VERIF, 'selftest', 'run_seeded.py'), '--props', prop, '--jobs', '4', '--json', out_json],
                       env=env, stdout=subprocess.PIPE, stderr=subprocess.STDOUT, text=True)
    try:
        sres = json.load(open(out_json))
        os.remove(out_json)
    except Exception:
        sres = []
    for x in sres:
        if (x['status'] == 'MISSED' and x.get('expected') != 'miss') or x['status'] == 'NOCOMPILE':
            viol.append(Inst('SELFTEST', 'SEEDED|%s|%s' % (prop, x['id']), 'violation', '', 'independently seeded change %s is no longer reported' % x['id'], [prop]))
    info['seeded'] = {'detected': [x['id'] for x in sres if x['status'] == 'DETECTED'],
                      'missed_out_of_reach': [x['id'] for x in sres if x['status'] == 'MISSED' and x.get('expected') == 'miss'],
                      'skipped': [x['id'] for x in sres if x['status'] == 'SKIPPED']}
    # (2) witness crate
    if prop in WITNESS_PROPS:
        w = run_witness(repo)
        info['witness'] = {k: v for k, v in w.items() if k != 'tail'}
        if w['lib_check_rc'] != 0:
            viol.append(Inst('WITNESS', 'WITNESS|%s|obligations' % prop, 'violation', '',
                             'a compile-pass obligation (Send+Sync / Serialize+PartialEq+Clone+Default on every instantiation) is not discharged by rustc: %s' % w['tail'][-600:], [prop]))
        if w['doc_rc'] != 0 or w['failed'] or w['doctests'] < 10:
            viol.append(Inst('WITNESS', 'WITNESS|%s|doctests' % prop, 'violation', '',
                             'witness doctests: %s %s' % (w['failed'][:3], w['tail'][-600:]), [prop]))
    return viol, info
