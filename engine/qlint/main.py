"""Command line driver for one property check."""
import argparse
import json
import os
import sys
import time

from . import extract, report
from .core import Facts
from . import props as P


def run_property(prop, tier, configs=None, repo=None, quiet=False):
    """-> (instances relevant to prop, facts by config, tree key)"""
    paths, key = extract.extract(configs=('default', 'nofeat', 'rel'), repo=repo, quiet=quiet)
    facts = {c: Facts(p, c) for c, p in paths.items()}
    spec = P.PROPERTIES[prop]
    insts = []
    for rule in spec['rules']:
        for i in P.run_rule(rule, facts, tier):
            if P.relevant(prop, i):
                insts.append(i)
    if tier == 'thorough':
        # every rule is also evaluated on the MIR of the other build configurations (no `prefetch` feature; no debug
        # assertions / overflow checks): a violation that exists only there is reported under the same key
        have = {(i.key, i.status) for i in insts}
        for cfg in ('nofeat', 'rel'):
            for rule in spec['rules']:
                for i in P.run_rule_config(rule, facts, cfg):
                    if P.relevant(prop, i) and i.status == 'violation' and (i.key, 'violation') not in have:
                        have.add((i.key, 'violation'))
                        insts.append(report.Inst(i.rule, i.key, 'violation', i.where, '[configuration %s] %s' % (cfg, i.detail), i.props, sample=i.sample))
    return insts, facts, key


def main(argv):
    ap = argparse.ArgumentParser()
    ap.add_argument('prop')
    ap.add_argument('--tier', default=os.environ.get('VERIF_TIER', 'quick'), choices=['quick', 'thorough'])
    ap.add_argument('--replay', default=None)
    ap.add_argument('--repo', default=None)
    ap.add_argument('--no-evidence', action='store_true')
    a = ap.parse_args(argv)
    prop = a.prop
    if a.replay:
        d = json.load(open(a.replay))
        for v in d.get('violations', []):
            print('%s %s [%s] %s' % (v['status'].upper(), v['key'], v['where'], v['detail']))
            if 'extracted' in v:
                print('    extracted:', json.dumps(v['extracted']))
        return 0
    if prop not in P.PROPERTIES:
        print('unknown property', prop)
        return 2
    seed = int(os.environ.get('VERIF_SEED', '0') or 0)
    t0 = time.time()
    spec = P.PROPERTIES[prop]
    insts, facts, key = run_property(prop, a.tier, repo=a.repo)
    known = report.load_known()
    viol = []
    known_hits = []
    for i in insts:
        if i.status == 'violation':
            if (prop, i.key) in known:
                known_hits.append(i)
            else:
                viol.append(i)
    # floors: fail closed when a rule matches fewer instances than counted by hand
    by_rule = {}
    for i in insts:
        # a site the rule looked at and could not decide ("shape not recognised") still shows the rule is alive on this tree
        if i.status in ('ok', 'violation') or (i.status == 'note' and (i.nontrivial or 'shape not recognised' in i.detail)):
            by_rule[i.rule] = by_rule.get(i.rule, 0) + 1
    failed_rules = {i.rule for i in insts if i.key.endswith('|analysis failed')}
    for rule, floor in spec.get('floors', {}).items():
        if rule in failed_rules:
            continue   # the rule has no verdict on this tree (recorded as a note); its floor says nothing
        if by_rule.get(rule, 0) < floor:
            viol.append(report.Inst(rule, '%s|floor' % rule, 'violation', '',
                                    'only %d instances evaluated, floor is %d (anchors lost?)' % (by_rule.get(rule, 0), floor),
                                    [prop]))
    selftest_notes = []
    if a.tier == 'thorough':
        extra_v, extra_info = P.thorough_extras(prop, facts, a.repo)
        # the self-test of the checker (seeded defects reported, benign edits silent) says something about the CHECKER, not
        # about this tree: its outcome is recorded in the evidence and printed, but it is not a violation of the property
        for v in extra_v:
            if v.rule == 'SELFTEST':
                selftest_notes.append(v)
            else:
                viol.append(v)
        extra_info['configs_evaluated_per_rule'] = ['default', 'nofeat', 'rel']
        extra_info['selftest_regressions'] = [v.key for v in selftest_notes]
    else:
        extra_info = {}
    wall = time.time() - t0
    for i in known_hits:
        print('KNOWN-FINDING: property=%s %s %s' % (prop, i.key, known[(prop, i.key)]))
    for v in selftest_notes:
        print('CHECKER-SELFTEST: %s %s' % (v.key, v.detail[:200]))
    n_fns = sum(1 for _ in facts['default'].lib_fns())
    extra = {
        'rule_text': spec['rule_text'],
        'explanation': spec['explanation'],
        'configs': sorted(facts.keys()),
        'tree': key,
        'functions_in_scope': n_fns,
        'floors': spec.get('floors', {}),
        'known_findings_matched': [i.key for i in known_hits],
        'not_decided': spec.get('not_decided', ''),
    }
    extra.update(extra_info)
    if spec['level'] == 'proof':
        evaluated = [i for i in insts if i.status in ('ok', 'violation')]
        extra['obligations'] = len(evaluated)
        extra['discharged'] = len([i for i in evaluated if i.status == 'ok'])
        extra['checker_cmd'] = './check %s --tier %s' % (prop, a.tier)
        extra['trusted_base'] = spec.get('trusted_base', [])
    if not a.no_evidence:
        report.write_evidence(prop, a.tier, spec['level'], seed, wall, insts, len(viol), extra,
                              spec.get('assumptions', []))
    n_ok = sum(1 for i in insts if i.status == 'ok')
    print('%s [%s] rules=%s instances=%d ok=%d known=%d violations=%d wall=%.1fs' % (
        prop, a.tier, ','.join(spec['rules']), len(insts), n_ok, len(known_hits), len(viol), wall))
    if viol:
        path = report.write_replay(prop, a.tier, viol, key)
        for i in viol:
            print('  %s [%s] %s' % (i.key, i.where, i.detail))
        print('VIOLATION property=%s replay=%s' % (prop, path))
        return 1
    return 0
