"""R-E: the empty / default state reaches no trap.

For every exported struct with a derived `Default` (all fields zero / empty / None in that state; the
constant-empty constructor states of the trees are the same state), every safe exported method is
walked through the crate call graph.  Empty-sensitive operations:
  s1  unsigned `x - k` (k >= 1) where x is a nullable integer field or the length of a nullable vector
  s2  Option::unwrap / expect on a nullable Option field
  s3  get_unchecked / constant index into a nullable slice or vector field
must be dominated, somewhere along the call chain, by a non-emptiness atom: a strict bound against a
nullable length/count term (`i < n`), `len != 0` / `!is_empty()`, or a `Some` pattern on the field.
"""
from .core import *
from .report import Inst

UINT = ('usize', 'u64', 'u32', 'u16', 'u8', 'u128')

PROPS_OF_BASE = {
    'quadwt::QWaveletTree': ['C01', 'C04'], 'quadwt::huffqwt::HuffQWaveletTree': ['C02', 'C04'],
    'binwt::WaveletTree': ['C03', 'C04'], 'qvector::QVector': ['C13', 'C04'],
    'qvector::rs_qvector::RSQVector': ['C05', 'C04'], 'bitvector::BitVector': ['C08', 'C04'],
    'bitvector::BitVectorMut': ['C08', 'C04'], 'bitvector::rs_narrow::RSNarrow': ['C06', 'C04'],
    'bitvector::rs_wide::RSWide': ['C06', 'C04'], 'darray::DArray': ['C07', 'C04'],
    'qvector::rs_qvector::rs_support_plain::RSSupportPlain': ['C05', 'C04'],
}

SELF = ('param', 'self')


def derived_default_types(FA):
    out = set()
    for f in FA.fns.values():
        if f['derived'] and f['name'] == 'default' and f['impl_trait'].endswith('Default'):
            out.add(base_type(f['impl_self']))
    return out


def fields_in(t, acc=None):
    acc = set() if acc is None else acc
    if isinstance(t, tuple):
        if t and t[0] == 'field' and isinstance(t[2], str):
            acc.add(t[2])
        for x in t:
            fields_in(x, acc)
    return acc


def has_nonself_param(t):
    if isinstance(t, tuple):
        if t[:1] == ('param',) and t[1] != 'self':
            return True
        return any(has_nonself_param(x) for x in t)
    return False


def nonempty_atom(atom, nf):
    """Does this path atom establish that the structure is not in its empty state?"""
    op, a, b = atom[0], atom[1], atom[2]
    if op == 'is' and b == 1:
        # body of `for x in lo..N` with N a nullable length: runs only when N > lo >= 0
        for st in subterms(a):
            if isinstance(st, tuple) and len(st) == 3 and st[0] == 'agg' and st[1].startswith('adt:std::ops::Range:') and len(st[2]) == 2:
                end = st[2][1]
                if (fields_in(end) & set(nf)) and not has_nonself_param(end):
                    return True
    if op == 'is':
        # `if let Some(..) = self.<nullable option>` (discriminant 1) or `self.<nullable option>?` (Try::branch Continue)
        t = a
        if isinstance(t, tuple) and t and t[0] == 'discr':
            inner = strip_ref(t[1])
            if isinstance(inner, tuple) and inner[:1] == ('call',) and inner[1].split('::')[-1] == 'branch' and inner[2] and b == 0:
                inner = strip_ref(inner[2][0])
                b = 1
            while isinstance(inner, tuple) and inner and inner[0] == 'call' and inner[1].split('::')[-1] in ('as_ref', 'as_mut') and inner[2]:
                inner = inner[2][0]
            if b == 1 and isinstance(inner, tuple) and inner[0] == 'field' and inner[2] in nf and 'Option' in nf[inner[2]]:
                return True
        return False
    if b is None or op not in ('<', '<=', '==', '!='):
        return False
    fa = fields_in(a)
    fb = fields_in(b)
    za = a == ('const', 0)
    zb = b == ('const', 0)

    def selfcount(t):
        # a count/len method of the receiver itself, e.g. occs_unchecked(self, symbol), n_ones(self)
        return isinstance(t, tuple) and t[:1] == ('call',) and len(t) > 2 and t[2] and mentions_self(t[2][0])
    if op == '<' and (selfcount(b) or (fb & set(nf))):
        return True
    if op == '!=' and ((fa & set(nf) and zb) or (fb & set(nf) and za)):
        return True
    if op == '!=' and ((za and selfcount(b)) or (zb and selfcount(a))):
        return True
    return False


def is_field_path(t):
    """self.a.b.c -- a pure chain of field projections rooted at self"""
    while isinstance(t, tuple) and t and t[0] == 'field':
        t = t[1]
    return t == SELF


def mentions_self(t):
    return contains(t, SELF)


def sensitive_ops(F, nf):
    out = []
    F.dom()
    for bi, b in enumerate(F.blocks):
        if bi not in F.reach:
            continue
        for s in b['s']:
            rv = s.get('rv')
            if not rv:
                continue
            if rv['k'] == 'bin' and rv['op'].startswith('Sub'):
                a = norm(F.operand_term(rv['a']))
                c = norm(F.operand_term(rv['b']))
                lt = F.locals[rv['a']['p']['l']] if 'p' in rv['a'] and not rv['a']['p']['proj'] else rv['a'].get('ty', '')
                if 'p' in rv['a'] and rv['a']['p']['proj']:
                    last = rv['a']['p']['proj'][-1]
                    lt = last.get('ty', '') if isinstance(last, dict) else ''
                if c[:1] == ('const',) and c[1] >= 1 and lt in UINT and not has_nonself_param(a) and mentions_self(a):
                    pure_field = is_field_path(a) and bool(fields_in(a) & set(nf))
                    pure_len = a[0] == 'call' and a[1].split('::')[-1] == 'len' and (fields_in(a) & set(nf))
                    if pure_field or pure_len:
                        out.append((bi, 's1', '%s - %d' % (show(a), c[1]), s['line']))
        t = b['t']
        if t['k'] == 'call' and 'fn' in t['f']:
            fn = t['f']['fn']
            args = t['args']
            if fn['name'] in ('unwrap', 'expect') and 'Option' in fn['path'] and args:
                a = norm(F.operand_term(args[0]))
                inner = a
                while isinstance(inner, tuple) and inner and inner[0] == 'call' and inner[1].split('::')[-1] in ('as_ref', 'as_mut', 'as_deref') and inner[2]:
                    inner = inner[2][0]
                if inner[0] == 'field' and inner[1] == SELF and inner[2] in nf and 'Option' in nf[inner[2]]:
                    out.append((bi, 's2', 'unwrap(self.%s)' % inner[2], t['line']))
            if fn['name'] == 'get_unchecked' and 'slice' in fn['path'] and args:
                a = norm(F.operand_term(args[0]))
                fs = fields_in(a) & set(nf)
                if fs and mentions_self(a):
                    out.append((bi, 's3', 'get_unchecked(%s)' % show(a)[:70], t['line']))
            if fn['name'] in ('index', 'index_mut') and fn['trait'] in ('std::ops::Index', 'std::ops::IndexMut') and len(args) == 2:
                a = norm(F.operand_term(args[0]))
                i = norm(F.operand_term(args[1]))
                if i[:1] == ('const',) and a[0] == 'field' and a[1] == SELF and a[2] in nf:
                    out.append((bi, 's3', 'self.%s[%d]' % (a[2], i[1]), t['line']))
        # direct slice indexing with a constant index (arrays are not nullable: fixed length)
    return out


def nullable_fields(FA, base, dd):
    adt = FA.adts.get(base)
    if adt is None or base not in dd:
        return None
    # fixed-size arrays keep their length in the default state: not nullable
    return {x['name']: x['ty'] for x in adt['fields'] if not (x.get('tags') and x['tags'][0].startswith('array:'))}


ITER_MAKERS = ('iter', 'into_iter', 'ones', 'zeros', 'ones_with_pos', 'zeros_with_pos')


def rule_E(FA):
    out = []
    dd = derived_default_types(FA)
    structs = sorted(p for p, a in FA.adts.items() if a['exported'] and p in dd and '::_::' not in p and 'perf_and_test' not in p)
    n_sens = 0
    for struct in structs:
        nf0 = nullable_fields(FA, struct, dd)
        props = PROPS_OF_BASE.get(struct, ['C04'])
        entries = [f for f in FA.lib_fns(include_closures=False)
                   if f.get('_base') == struct and f['exported'] and not f['unsafe'] and f['name'] not in ('fmt',)]
        for e in entries:
            # functions that hand out an iterator belong to the iterator property as well
            props = PROPS_OF_BASE.get(struct, ['C04']) + (['C12'] if e['name'] in ITER_MAKERS else [])
            # specialise on every boolean const generic of the entry, also those only used by its callees
            cps = FA.const_params(e)
            import itertools
            all_specs = [dict(zip(cps, vals)) for vals in itertools.product([False, True], repeat=len(cps))] if len(cps) <= 2 else list(FA.specs(e))
            used = set(FA.used_const_params(e))
            for spec in all_specs:
                findings = {}
                visited = []

                def walk(f, nf, protected, chain, depth, seen):
                    key = (f['path'], protected, tuple(sorted(nf)))
                    if key in seen or depth > 5:
                        return
                    seen.add(key)
                    fspec = {k: v for k, v in spec.items() if k in FA.const_params(f)}
                    F = FA.fn(f, fspec)
                    for bi, kind, what, line in sensitive_ops(F, nf):
                        visited.append(what)
                        prot = protected or any(nonempty_atom(a, nf) for a in path_atoms(F, bi))
                        if not prot:
                            k2 = (kind, fn_key(f), what)
                            findings.setdefault(k2, (line, ' -> '.join(chain)))
                    for bi, t in F.calls():
                        fn = t['f']['fn']
                        cands = FA.resolve(fn)
                        if not cands:
                            continue
                        a0 = norm(F.operand_term(t['args'][0])) if t['args'] else None
                        prot = protected or any(nonempty_atom(a, nf) for a in path_atoms(F, bi))
                        fbase = f.get('_base', '')
                        for cal in cands:
                            cb = cal.get('_base', '')
                            if cal['kind'] == 'Closure' or a0 is None:
                                continue
                            if a0 == SELF and cb in (fbase, 'Self'):
                                walk(cal, nf, prot, chain + [cal['name']], depth + 1, seen)
                            elif a0 != SELF and mentions_self(a0) and fields_in(a0):
                                # receiver is (an element of) a component: follow into the component's type;
                                # its safe exported methods are entries of their own and are judged there
                                if cal['exported'] and not cal['unsafe'] and cb in structs:
                                    continue
                                nf2 = nullable_fields(FA, cb, dd)
                                if nf2 is not None:
                                    walk(cal, nf2, prot, chain + ['%s::%s' % (cb.split('::')[-1], cal['name'])], depth + 1, seen)
                walk(e, nf0, False, [e['name']], 0, set())
                n_sens += len(visited)
                ekey = '%s%s' % (fn_key(e), spec_key({k: v for k, v in spec.items() if k != 'WITH_PREFETCH_SUPPORT' or k in used}))
                if findings:
                    for (kind, where_fn, what), (line, chain) in sorted(findings.items()):
                        out.append(Inst('R-E', 'R-E|%s|%s %s in %s' % (ekey, kind, what, where_fn.split('::')[-1]), 'violation', line,
                                        'empty/default %s reaches `%s` (%s) with no dominating non-emptiness test; call chain %s' % (
                                            struct.split('::')[-1], what, {'s1': 'unsigned underflow', 's2': 'unwrap of None', 's3': 'access into an empty slice'}[kind], chain),
                                        props, sample={'chain': chain, 'operation': what}))
                else:
                    out.append(Inst('R-E', 'R-E|%s' % ekey, 'ok', e['span'],
                                    '%d empty-sensitive operations reachable, all protected' % len(visited), props,
                                    nontrivial=len(visited) > 0, sample={'sensitive_ops': sorted(set(visited))[:8]}))
    return out


# ---------------------------------------------------------------- R-E (iterators)

VIEW_CALLS = ('as_ref', 'as_mut', 'deref', 'deref_mut', 'borrow', 'borrow_mut', 'as_slice', 'clone')


def strip_views(t):
    if not isinstance(t, tuple) or not t:
        return t
    if t[0] == 'call' and t[1].split('::')[-1] in VIEW_CALLS and len(t[2]) == 1:
        return strip_views(t[2][0])
    return tuple(strip_views(x) for x in t)


def _iter_empty_sites(FA, dd):
    """`next` / `next_back` / `len` .. of the iterator types: `x.len() - k` / `x.count - k` on a field of the container the
    iterator walks (a struct with a derived Default, whose vectors are empty and counters zero in that state) must be
    dominated by a test that involves the container: an iterator over the default value is a reachable state."""
    out = []
    by_field = {}
    for s in dd:
        adt = FA.adts.get(s)
        if adt is None or not adt.get('exported') or '::_::' in s:
            continue
        for x in adt['fields']:
            by_field.setdefault(x['name'], []).append((s, x['ty']))
    for f in FA.lib_fns(include_closures=False):
        if f['impl_trait'].split('::')[-1] not in ('Iterator', 'DoubleEndedIterator', 'ExactSizeIterator') or f['name'] not in ('next', 'next_back', 'nth', 'len', 'size_hint'):
            continue
        F = FA.fn(f)
        F.dom()
        n = 0
        bad = None
        for bi, b in enumerate(F.blocks):
            if bi not in F.reach:
                continue
            for s_ in b['s']:
                rv = s_.get('rv')
                if not rv or rv['k'] != 'bin' or not rv['op'].startswith('Sub') or any(m.startswith('debug_assert') for m in s_.get('macros', [])):
                    continue
                a = strip_views(norm(F.operand_term(rv['a'])))
                c = norm(F.operand_term(rv['b']))
                if not (c[:1] == ('const',) and isinstance(c[1], int) and c[1] >= 1):
                    continue
                x = a
                is_len = False
                if x[:1] == ('call',) and x[1].split('::')[-1] == 'len' and x[2]:
                    is_len = True
                    # the receiver may be the raw slice behind a Box / Vec field (`self.qv.data.0.pointer as *const [T]`)
                    x = next((st for st in subterms(strip_views(x[2][0])) if isinstance(st, tuple) and st[:1] == ('field',) and isinstance(st[1], tuple)
                              and st[1][:1] == ('field',) and st[1][1] == SELF and st[2] in by_field), ('?',))
                # x = self.<f0>.<fld>
                if not (x[:1] == ('field',) and isinstance(x[1], tuple) and x[1][:1] == ('field',) and x[1][1] == SELF):
                    continue
                P, fld = x[1], x[2]
                owners = [(s, ty) for s, ty in by_field.get(fld, []) if (('Vec<' in ty or 'Box<[' in ty) if is_len else ty in UINT)]
                if not owners:
                    continue
                n += 1
                guarded = False
                for at in path_atoms(F, bi):
                    if at[0] not in ('<', '<=', '!=', 'is', '=='):
                        continue
                    for side in at[1:3]:
                        if isinstance(side, tuple) and contains(strip_views(side), P):
                            guarded = True
                if not guarded and bad is None:
                    bad = (s_.get('line', ''), '%s - %d' % (show(a)[:60], c[1]), owners[0][0])
        key = 'R-E|%s|container state' % fn_key(f)
        props = ['C12', 'C04']
        from .r_arith import props_of_module
        props = props + [p for p in props_of_module(fn_key(f), default=()) if p not in props]
        if bad:
            out.append(Inst('R-E', key, 'violation', bad[0],
                            '`%s` in %s::%s with no dominating test on the container: for the empty / default %s it underflows (an iterator over the default value is reachable through the public API)' % (
                                bad[1], f.get('_base', '').split('::')[-1], f['name'], 'container'), props))
        elif n:
            out.append(Inst('R-E', key, 'ok', f['span'], '%d subtraction(s) from a length / counter of the walked container, each after a test on it' % n, props))
    return out


_rule_E_base = rule_E


def rule_E(FA):
    out = _rule_E_base(FA)
    out.extend(_iter_empty_sites(FA, derived_default_types(FA)))
    return out
