#!/usr/bin/env python3
"""Measure per-property, per-rule instance counts on the current tree and freeze them as floors
(engine/floors.json).  Run by hand after the instance lists were confirmed by reading; never at check time."""
import json, os, sys
HERE = os.path.dirname(os.path.abspath(__file__))
sys.path.insert(0, HERE)
from qlint import props as P, main as M
EXACT = {'R-G', 'R-SIB', 'R-TW', 'R-DEL', 'R-LAY', 'R-PF', 'R-TAB', 'R-IT', 'R-NON', 'R-MSK', 'R-DAR', 'R-LVL', 'R-SPC', 'R-BOX', 'R-DBG', 'R-SMP', 'R-HINT', 'R-SELP'}
LOW = {'R-DA': 3, 'R-SPLIT': 0, 'R-BITS': 0, 'R-CMP': 0, 'R-INV': 10, 'R-NEG': 0, 'R-IT': 1, 'R-DAR': 1, 'R-LVL': 1, 'R-HINT': 1, 'R-MSK': 1, 'R-SMP': 0, 'R-SELP': 1, 'R-OBJ': 0, 'R-GUSE': 0, 'R-WRAP': 0, 'R-RNG': 0, 'R-REMC': 0, 'R-ALL': 0, 'R-PRE': 0, 'R-PAR': 0, 'R-GIDX': 0, 'R-DNAME': 0, 'R-SIGN': 0, 'R-EMPT': 0, 'R-USE': 0, 'R-FLT': 0, 'R-STAB': 0, 'R-CTOR': 0, 'R-OFFS': 0, 'R-CODE': 0, 'R-HORD': 0, 'R-NCNT': 0, 'R-CGEN': 0}
out = {}
for pid in sorted(P.PROPERTIES):
    insts, facts, key = M.run_property(pid, 'quick', quiet=True)
    by = {}
    for i in insts:
        if i.status in ('ok', 'violation'):
            by[i.rule] = by.get(i.rule, 0) + 1
    fl = {}
    for r, n in by.items():
        # A floor guards against a rule that silently matches (almost) nothing -- broken extraction, a renamed module --
        # not against a maintainer merging two functions: half of the confirmed count.  Missing individual anchors are
        # reported by the rules themselves.
        if r in LOW:
            fl[r] = min(n, LOW[r])
        else:
            fl[r] = max(1, n // 2)
    out[pid] = fl
json.dump(out, open(os.path.join(HERE, 'floors.json'), 'w'), indent=1, sort_keys=True)
print(json.dumps(out, sort_keys=True))
