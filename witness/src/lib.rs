//! Type-level witnesses for rossanoventurini/qwt, discharged by rustc's type checker.
//! Nothing here is executed: compiling twins are `no_run`, failing twins are `compile_fail,E0xxx`
//! (the error code is honoured on nightly only: run with `cargo +nightly test --doc`).
use qwt::*;

fn shareable<T: Send + Sync + 'static>() {}
fn plain_data<T: Clone + PartialEq + serde::Serialize + serde::de::DeserializeOwned + Default>() {}

/// C18: every query structure, on every element type, is `Send + Sync` (compile-pass obligations).
pub fn send_sync_obligations() {
    shareable::<BitVector>();
    shareable::<BitVectorMut>();
    shareable::<QVector>();
    shareable::<RSQVector256>();
    shareable::<RSQVector512>();
    shareable::<RSNarrow>();
    shareable::<RSWide>();
    shareable::<DArray<false>>();
    shareable::<DArray<true>>();
    macro_rules! trees {
        ($($t:ty),*) => {$(
            shareable::<QWT256<$t>>(); shareable::<QWT512<$t>>(); shareable::<QWT256Pfs<$t>>(); shareable::<QWT512Pfs<$t>>();
            shareable::<HQWT256<$t>>(); shareable::<HQWT512<$t>>(); shareable::<HQWT256Pfs<$t>>(); shareable::<HQWT512Pfs<$t>>();
            shareable::<WT<$t>>(); shareable::<HWT<$t>>();
        )*};
    }
    trees!(u8, u16, u32, u64, usize, u128);
}

/// C11 / C19: every serializable structure is Clone + PartialEq + Serialize + DeserializeOwned + Default.
pub fn serde_obligations() {
    plain_data::<BitVector>();
    plain_data::<BitVectorMut>();
    plain_data::<QVector>();
    plain_data::<RSQVector256>();
    plain_data::<RSQVector512>();
    plain_data::<RSNarrow>();
    plain_data::<RSWide>();
    plain_data::<DArray<false>>();
    plain_data::<DArray<true>>();
    macro_rules! trees {
        ($($t:ty),*) => {$(
            plain_data::<QWT256<$t>>(); plain_data::<QWT512Pfs<$t>>();
            plain_data::<HQWT256<$t>>(); plain_data::<HQWT512Pfs<$t>>();
            plain_data::<WT<$t>>(); plain_data::<HWT<$t>>();
        )*};
    }
    trees!(u8, u16, u32, u64, usize, u128);
}

/// The Send/Sync witness bites: a `Cell`-holding wrapper is rejected ...
/// ```compile_fail,E0277
/// fn shareable<T: Send + Sync>() {}
/// struct P { c: std::cell::Cell<usize>, q: qwt::RSWide }
/// shareable::<P>();
/// ```
/// ... and its twin, differing only by the offending field, compiles.
/// ```no_run
/// fn shareable<T: Send + Sync>() {}
/// struct P { c: usize, q: qwt::RSWide }
/// shareable::<P>();
/// ```
pub struct SyncWitness;

/// Unchecked trait methods need `unsafe` (C04 / C10 / C18).
/// ```compile_fail,E0133
/// use qwt::{QWT256, AccessUnsigned};
/// let q = QWT256::from(vec![1u8, 2, 3]);
/// let _ = q.get_unchecked(0);
/// ```
/// ```no_run
/// use qwt::{QWT256, AccessUnsigned};
/// let q = QWT256::from(vec![1u8, 2, 3]);
/// let _ = unsafe { q.get_unchecked(0) };
/// ```
/// Inherent unchecked methods too.
/// ```compile_fail,E0133
/// let bv: qwt::BitVector = vec![true, false, true].into_iter().collect();
/// let _ = bv.get_bits_unchecked(0, 2);
/// ```
/// ```no_run
/// let bv: qwt::BitVector = vec![true, false, true].into_iter().collect();
/// let _ = unsafe { bv.get_bits_unchecked(0, 2) };
/// ```
/// ```compile_fail,E0133
/// use qwt::{RSQVector256, RankQuad};
/// let v: RSQVector256 = (0..10_u64).map(|x| x % 4).collect();
/// let _ = v.rank_unchecked(1, 3);
/// ```
/// ```no_run
/// use qwt::{RSQVector256, RankQuad};
/// let v: RSQVector256 = (0..10_u64).map(|x| x % 4).collect();
/// let _ = unsafe { v.rank_unchecked(1, 3) };
/// ```
pub struct UnsafeWitness;

/// The immutable bit vector has no mutator (C18): `set` exists only on `BitVectorMut`.
/// ```compile_fail,E0599
/// let mut b: qwt::BitVector = vec![true, false].into_iter().collect();
/// b.set(0, false);
/// ```
/// ```no_run
/// let mut b: qwt::BitVectorMut = vec![true, false].into_iter().collect();
/// b.set(0, false);
/// ```
/// Queries work through a shared reference from several threads (type-checks; not run).
/// ```no_run
/// use qwt::{QWT256, RankUnsigned};
/// let q = QWT256::from(vec![1u8, 2, 3]);
/// std::thread::scope(|s| { s.spawn(|| q.rank(1, 2)); s.spawn(|| q.rank(2, 3)); });
/// ```
pub struct ImmutableWitness;
