#!/usr/bin/env python3
"""save_seed.py <Cxx> <seed-id> <needs...> : copy a verified sub-agent change into /verif/seeded/<seed-id>/"""
import sys, os, shutil, json, subprocess
pid, sid = sys.argv[1], sys.argv[2]
out = '/tmp/seed2/%s-out' % (sys.argv[3] if len(sys.argv) > 3 and sys.argv[3].startswith('C') else pid)
d = '/verif/seeded/%s' % sid
os.makedirs(d, exist_ok=True)
shutil.copy(out + '/patch.diff', d + '/patch.diff')
shutil.copy(out + '/seed_demo.rs', d + '/seed_demo.rs')
if os.path.exists(out + '/NOTES.md'): shutil.copy(out + '/NOTES.md', d + '/NOTES.md')
meta = json.loads(sys.stdin.read())
meta['property'] = pid
meta['base_commit'] = subprocess.check_output(['git', '-C', '/repo', 'rev-parse', 'HEAD'], text=True).strip()
json.dump(meta, open(d + '/meta.json', 'w'), indent=1)
print('saved', d)
