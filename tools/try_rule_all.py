import sys, importlib
sys.path.insert(0,'/verif/engine')
from qlint.core import *
from qlint import extract
paths,key=extract.extract()
facts={c:Facts(p,c) for c,p in paths.items()}
mod, fn = sys.argv[1], sys.argv[2]
m=importlib.import_module('qlint.'+mod)
res=getattr(m,fn)(facts)
for i in res:
    if len(sys.argv)>3 and sys.argv[3]!=i.status: continue
    print(i.status.upper(), i.key, i.where, '::', i.detail[:300])
    if i.sample and i.status!='ok': print('      ', i.sample)
print(len(res), {s: sum(1 for i in res if i.status==s) for s in ('ok','violation','note')})
