#!/bin/bash
# usage: verify_seed.sh <Cxx> [outdir]   -- independent confirmation of a sub-agent's seeded change in a fresh worktree
id=$1; out=${2:-/tmp/seed2/$id-out}
wt=/tmp/verify/$id
mkdir -p /tmp/verify
git -C /repo worktree remove --force $wt 2>/dev/null
git -C /repo worktree add -q --detach $wt HEAD || exit 2
export CARGO_TARGET_DIR=/tmp/verify-target CARGO_NET_OFFLINE=true
cd $wt
git apply $out/patch.diff || { echo "PATCH DOES NOT APPLY"; exit 2; }
echo "changed files: $(git diff --stat | tail -1)"
mkdir -p tests; cp $out/seed_demo.rs tests/seed_demo.rs
suite=$(cargo test --lib --offline 2>&1 | grep '^test result' | head -1)
echo "WITH CHANGE    suite: $suite"
demo1=$(cargo test --offline --test seed_demo 2>&1 | grep '^test result' | head -1)
echo "WITH CHANGE    demo : $demo1"
git checkout -q -- src
demo0=$(cargo test --offline --test seed_demo 2>&1 | grep '^test result' | head -1)
echo "WITHOUT CHANGE demo : $demo0"
git apply $out/patch.diff
rm -rf tests/seed_demo.rs
echo "--- checks on the changed tree"
cd /verif
for p in ${3:-$id}; do ./check $p --repo $wt --no-evidence 2>&1 | grep -E '^C[0-9]+ \[|^  R-|VIOLATION' | cut -c1-260; done
