#!/bin/bash
# run every property check; summarize
cd /verif
for i in $(seq -w 1 19); do ./check C$i --tier ${1:-quick} 2>&1 | grep -E '^C[0-9]+ \[|VIOLATION|KNOWN|Traceback|Error' ; done
