"""usage: try_rule_repo.py <repo dir> <module> <rule fn> [status filter] [key substring]"""
import sys, importlib
sys.path.insert(0, '/verif/engine')
from qlint.core import *
from qlint import extract
paths, key = extract.extract(repo=sys.argv[1])
FA = Facts(paths['default'])
m = importlib.import_module('qlint.' + sys.argv[2])
res = getattr(m, sys.argv[3])(FA)
filt = sys.argv[4] if len(sys.argv) > 4 and sys.argv[4] != '-' else None
sub = sys.argv[5] if len(sys.argv) > 5 else ''
for i in res:
    if filt and filt != i.status:
        continue
    if sub and sub not in i.key:
        continue
    print(i.status.upper(), i.key, i.where, '::', i.detail[:400])
