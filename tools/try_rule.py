import sys, importlib
sys.path.insert(0,'/verif/engine')
from qlint.core import *
from qlint import extract
paths,key=extract.extract()
FA=Facts(paths['default'])
mod, fn = sys.argv[1], sys.argv[2]
m=importlib.import_module('qlint.'+mod)
res=getattr(m,fn)(FA)
filt = sys.argv[3] if len(sys.argv)>3 else None
for i in res:
    if filt and filt!=i.status: continue
    print(i.status.upper(), i.key, i.where, '::', i.detail)
    if i.sample and i.status!='ok': print('      ', i.sample)
print(len(res), {s: sum(1 for i in res if i.status==s) for s in ('ok','violation','note')})
