#!/usr/bin/env python3
"""Development-time helper: print / refreeze engine/unsafe_inventory.json from /repo (after reviewing the diff by hand).
Never called by a check."""
import json, os, sys
sys.path.insert(0, os.path.join(os.path.dirname(os.path.abspath(__file__)), '..', 'engine'))
from qlint import extract, r_unsafe
from qlint.core import Facts
paths, key = extract.extract(quiet=True)
FA = Facts(paths['default'])
inv = r_unsafe.dump_inventory(FA)
if '--write' in sys.argv:
    json.dump(inv, open(r_unsafe.INV_PATH, 'w'), indent=1, sort_keys=True)
    print('wrote', r_unsafe.INV_PATH, len(inv), 'entries', sum(sum(v.values()) for v in inv.values()), 'sites')
else:
    print(json.dumps(inv, indent=1, sort_keys=True))
