#!/usr/bin/env python3
"""Run the property checks against every independently seeded change under /verif/seeded/<id>/
(patch.diff applied to a scratch copy of the current /repo; nothing is applied to /repo itself).

  selftest/run_seeded.py [--ids s01,s05] [--props C01] [--jobs 4]
"""
import argparse, concurrent.futures, json, os, shutil, subprocess, sys, tempfile
HERE = os.path.dirname(os.path.abspath(__file__))
VERIF = os.path.dirname(HERE)
sys.path.insert(0, os.path.join(VERIF, 'engine'))
sys.path.insert(0, HERE)
from qlint import extract, props as P
from qlint.core import Facts
import run as R

REPO = os.environ.get('QWT_REPO', '/repo')


def one(sid, prop_filter):
    d0 = os.path.join(VERIF, 'seeded', sid)
    meta = json.load(open(os.path.join(d0, 'meta.json')))
    prop = meta['property']
    also = meta.get('also_properties', [])
    props = [p for p in [prop] + also if not prop_filter or p in prop_filter]
    if not props:
        return None
    d, _ = R.make_copy([])
    try:
        r = subprocess.run(['patch', '-p1', '-s', '-i', os.path.join(d0, 'patch.diff')], cwd=d, stdout=subprocess.PIPE, stderr=subprocess.STDOUT, text=True)
        if r.returncode != 0:
            return {'id': sid, 'status': 'SKIPPED', 'detail': 'patch does not apply: ' + r.stdout[-200:]}
        try:
            paths, key = extract.extract(repo=d, quiet=True)
        except SystemExit:
            return {'id': sid, 'status': 'NOCOMPILE'}
        facts = {c: Facts(p, c) for c, p in paths.items()}
        hits = {}
        for p in props:
            vs = R.violations_for(p, facts)
            hits[p] = [v.key for v in vs][:3]
        P._cache.clear()
        det = [p for p in props if hits[p]]
        return {'id': sid, 'property': prop, 'status': 'DETECTED' if prop in det or (det and prop not in props) else 'MISSED', 'hits': hits,
                'expected': meta.get('expected', 'detect')}
    finally:
        shutil.rmtree(d, ignore_errors=True)


def main():
    ap = argparse.ArgumentParser()
    ap.add_argument('--ids', default='')
    ap.add_argument('--props', default='')
    ap.add_argument('--jobs', type=int, default=3)
    ap.add_argument('--json', default='')
    a = ap.parse_args()
    ids = sorted(os.listdir(os.path.join(VERIF, 'seeded')))
    if a.ids:
        ids = [i for i in ids if any(i.startswith(x) for x in a.ids.split(','))]
    pf = set(x for x in a.props.split(',') if x)
    os.environ['QLINT_CACHE_LIMIT'] = '60'
    res = []
    with concurrent.futures.ThreadPoolExecutor(max_workers=a.jobs) as ex:
        for r in ex.map(lambda s: one(s, pf), ids):
            if r is None:
                continue
            res.append(r)
            print('%-10s %-45s %s %s' % (r['status'], r['id'], r.get('property', ''), json.dumps(r.get('hits', r.get('detail', '')))[:200]), flush=True)
    if a.json:
        json.dump(res, open(a.json, 'w'), indent=1)
    # a seed recorded as out of reach ("expected": "miss") may be missed; any other miss is a regression of the checker
    bad = [r for r in res if r['status'] == 'MISSED' and r.get('expected') != 'miss' or r['status'] == 'NOCOMPILE']
    print('seeded: %d changes, %d detected, %d missed (%d expected), %d skipped' % (
        len(res), sum(r['status'] == 'DETECTED' for r in res), sum(r['status'] == 'MISSED' for r in res),
        sum(r['status'] == 'MISSED' and r.get('expected') == 'miss' for r in res), sum(r['status'] == 'SKIPPED' for r in res)))
    return 1 if bad else 0


if __name__ == '__main__':
    sys.exit(main())
