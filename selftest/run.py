#!/usr/bin/env python3
"""Self-test of the checker, both ways: every seeded defect must be reported by the named rule instance,
every behaviour-preserving refactor must leave all property checks silent.

  selftest/run.py [--props C01,C05] [--ids m01,b03] [--validate] [--jobs 4] [--json out.json]

Scratch copies of the current /repo live under a mkdtemp directory and are removed as soon as their
facts have been read.  --validate additionally builds each mutant and runs the pinned unit tests in
the scratch copy (they must still pass: the suite cannot see the seeded defect)."""
import argparse, concurrent.futures, json, os, shutil, subprocess, sys, tempfile, time
HERE = os.path.dirname(os.path.abspath(__file__))
sys.path.insert(0, os.path.join(os.path.dirname(HERE), 'engine'))
sys.path.insert(0, HERE)
from qlint import extract, props as P, report
from qlint.core import Facts
import corpus

REPO = os.environ.get('QWT_REPO', '/repo')


def make_copy(edits):
    d = tempfile.mkdtemp(prefix='qlint-selftest-')
    for name in ('src', 'Cargo.toml', 'Cargo.lock', 'README.md'):
        s = os.path.join(REPO, name)
        if os.path.isdir(s):
            shutil.copytree(s, os.path.join(d, name))
        elif os.path.exists(s):
            shutil.copy2(s, os.path.join(d, name))
    for path, old, new in edits:
        fp = os.path.join(d, path)
        txt = open(fp).read()
        if txt.count(old) != 1:
            shutil.rmtree(d, ignore_errors=True)
            return None, '%s: anchor text occurs %d times' % (path, txt.count(old))
        open(fp, 'w').write(txt.replace(old, new))
    return d, None


def violations_for(prop, facts):
    """the verdict of the quick check of `prop` on the given facts (same relevance, floor and known-finding logic as
    engine/qlint/main.py)"""
    spec = P.PROPERTIES[prop]
    known = report.load_known()
    insts = []
    for rule in spec['rules']:
        for i in P.run_rule(rule, facts, 'quick'):
            if P.relevant(prop, i):
                insts.append(i)
    out = [i for i in insts if i.status == 'violation' and (prop, i.key) not in known]
    by = {}
    for i in insts:
        if i.status in ('ok', 'violation') or (i.status == 'note' and (i.nontrivial or 'shape not recognised' in i.detail)):
            by[i.rule] = by.get(i.rule, 0) + 1
    failed = {i.rule for i in insts if i.key.endswith('|analysis failed')}
    for rule, floor in spec.get('floors', {}).items():
        if rule in failed:
            continue
        if by.get(rule, 0) < floor:
            out.append(report.Inst(rule, '%s|floor' % rule, 'violation', '', 'only %d instances (floor %d)' % (by.get(rule, 0), floor), [prop]))
    return out


def run_item(kind, item, validate, prop_filter):
    t0 = time.time()
    if kind == 'mutant':
        mid, props, expect, edits = item
    else:
        mid, edits = item
        props, expect = sorted(P.PROPERTIES), None
    if prop_filter:
        props = [p for p in props if p in prop_filter]
        if not props:
            return {'id': mid, 'kind': kind, 'status': 'FILTERED'}
    d, err = make_copy(edits)
    if d is None:
        return {'id': mid, 'kind': kind, 'status': 'SKIPPED', 'detail': err}
    try:
        res = {'id': mid, 'kind': kind}
        if validate and kind == 'mutant':
            tdir = tempfile.mkdtemp(prefix='qlint-selftest-target-')
            r = subprocess.run(['cargo', 'test', '--lib', '--offline', '--no-fail-fast'], cwd=d, env=dict(os.environ, CARGO_TARGET_DIR=tdir, CARGO_NET_OFFLINE='true'),
                               stdout=subprocess.PIPE, stderr=subprocess.STDOUT, text=True)
            shutil.rmtree(tdir, ignore_errors=True)
            line = [l for l in r.stdout.splitlines() if l.startswith('test result')]
            res['suite'] = line[0] if line else 'BUILD FAILED'
        try:
            paths, key = extract.extract(repo=d, quiet=True)
        except SystemExit:
            res.update(status='NOCOMPILE', detail='scratch copy does not compile')
            return res
        facts = {c: Facts(p, c) for c, p in paths.items()}
        hits, alarms = [], []
        for p in props:
            vs = violations_for(p, facts)
            if kind == 'mutant':
                m = [v for v in vs if expect in v.key]
                if m:
                    hits.append((p, m[0].key))
                elif vs:
                    alarms.append((p, vs[0].key))
            else:
                alarms.extend((p, v.key + ' :: ' + v.detail[:160]) for v in vs)
        P._cache.clear()
        if kind == 'mutant':
            missed = [p for p in props if p not in [h[0] for h in hits]]
            res.update(status='DETECTED' if not missed else ('PARTIAL' if hits else 'MISSED'), hits=hits, missed=missed, other=alarms)
        else:
            res.update(status='SILENT' if not alarms else 'FALSE-ALARM', alarms=alarms)
        res['wall_s'] = round(time.time() - t0, 1)
        return res
    finally:
        shutil.rmtree(d, ignore_errors=True)


def main():
    ap = argparse.ArgumentParser()
    ap.add_argument('--props', default='')
    ap.add_argument('--ids', default='')
    ap.add_argument('--validate', action='store_true')
    ap.add_argument('--jobs', type=int, default=3)
    ap.add_argument('--json', default='')
    a = ap.parse_args()
    pf = set(x for x in a.props.split(',') if x)
    ids = set(x for x in a.ids.split(',') if x)
    items = [('mutant', m) for m in corpus.MUTANTS] + [('benign', b) for b in corpus.BENIGN]
    if ids:
        items = [(k, it) for k, it in items if any(it[0].startswith(i) for i in ids)]
    os.environ['QLINT_CACHE_LIMIT'] = '60'
    results = []
    with concurrent.futures.ThreadPoolExecutor(max_workers=a.jobs) as ex:
        futs = [ex.submit(run_item, k, it, a.validate, pf) for k, it in items]
        for f in futs:
            r = f.result()
            if r['status'] == 'FILTERED':
                continue
            results.append(r)
            extra = ''
            if r['status'] in ('MISSED', 'PARTIAL'):
                extra = ' missed=%s other=%s' % (r.get('missed'), r.get('other'))
            if r['status'] == 'FALSE-ALARM':
                extra = ' ' + '; '.join('%s %s' % x for x in r['alarms'][:3])
            if r['status'] in ('SKIPPED', 'NOCOMPILE'):
                extra = ' ' + r.get('detail', '')
            print('%-12s %-45s %s%s%s' % (r['status'], r['id'], r.get('suite', ''), ' %.0fs' % r.get('wall_s', 0), extra), flush=True)
    bad = [r for r in results if r['status'] in ('MISSED', 'PARTIAL', 'FALSE-ALARM', 'NOCOMPILE')]
    if a.json:
        json.dump(results, open(a.json, 'w'), indent=1)
    print('selftest: %d items, %d detected, %d silent, %d skipped, %d bad' % (
        len(results), sum(r['status'] == 'DETECTED' for r in results), sum(r['status'] == 'SILENT' for r in results),
        sum(r['status'] == 'SKIPPED' for r in results), len(bad)))
    return 1 if bad else 0


if __name__ == '__main__':
    sys.exit(main())
