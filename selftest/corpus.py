"""Self-test corpus of the checker: seeded defects (each compiles and passes the 64 pinned unit tests,
verified with selftest/run.py --validate) and behaviour-preserving refactors.

Edits are (file, old, new) string replacements applied to a scratch copy of the CURRENT /repo, so they
follow the tree as it evolves; an edit whose anchor text is gone is reported as SKIPPED, not as a pass.
"""

# (id, properties whose check must fail, substring expected in a violation key, edits)
MUTANTS = [
    ('m01-qwt-get-off-by-one', ['C01', 'C04', 'C10'], 'R-G|quadwt::QWaveletTree::get', [
        ('src/quadwt/mod.rs', "        if i >= self.n {\n            return None;\n        }\n        // SAFETY: check before guarantees we are not out of bound",
         "        if i > self.n {\n            return None;\n        }\n        // SAFETY: check before guarantees we are not out of bound")]),
    ('m02-hqwt-rank-prefetch-weaker-validity', ['C02', 'C09'], 'HuffQWaveletTree', [
        ('src/quadwt/huffqwt.rs', "        if i > self.n || !self.is_coded(symbol) {\n            return None;\n        }\n\n        // SAFETY: Check the above guarantees we are not out of bound\n        Some(unsafe { self.rank_prefetch_unchecked(symbol, i) })",
         "        if i > self.n || symbol.as_() >= self.codes_encode.len() {\n            return None;\n        }\n\n        // SAFETY: Check the above guarantees we are not out of bound\n        Some(unsafe { self.rank_prefetch_unchecked(symbol, i) })")]),
    ('m03-rsqvector-select-no-symbol-test', ['C05', 'C04'], 'RSQVector::select', [
        ('src/qvector/rs_qvector.rs', "if symbol > 3 || unsafe { self.occs_unchecked(symbol) } <= i {", "if unsafe { self.occs_unchecked(symbol) } <= i {")]),
    ('m04-bitvector-get-bits-strict', ['C08'], 'get_bits', [
        ('src/bitvector/mod.rs', "(index > self.n_bits) || (len > self.n_bits - index)", "(index >= self.n_bits) || (len >= self.n_bits - index)")]),
    ('m05-rsnarrow-mask', ['C06'], 'R-LAY|b|RSNarrow', [
        ('src/bitvector/rs_narrow.rs', "& 0x1FF;", "& 0xFF;")]),
    ('m06-rsnarrow-hint-period', ['C06'], 'R-LAY|c|RSNarrow hint period', [
        ('src/bitvector/rs_narrow.rs', "const SELECT_ONES_PER_HINT: usize = 64 * BLOCK_SIZE * 2;", "const SELECT_ONES_PER_HINT: usize = 64 * 4;")]),
    ('m07-darray-threshold', ['C07'], 'R-DAR|u16 store bounded', [
        ('src/darray/mod.rs', "curr_positions.first().unwrap() < MAX_IN_BLOCK_DISTACE", "curr_positions.first().unwrap() <= MAX_IN_BLOCK_DISTACE")]),
    ('m08-prefetch-non-wrapping', ['C09'], 'R-PF|b|prefetch_read_NTA', [
        ('src/utils/mod.rs', "let _p = data.as_ptr().wrapping_add(offset) as *const i8;", "let _p = unsafe { data.as_ptr().add(offset) } as *const i8;")]),
    ('m09-rank-prefetch-uses-estimate', ['C09'], 'R-PF|a|quadwt::QWaveletTree::rank_prefetch_unchecked', [
        ('src/quadwt/mod.rs', "            shift -= 2;\n        }\n        self.rank_unchecked(symbol, i)\n    }", "            shift -= 2;\n        }\n        self.rank_unchecked(symbol, range.end.min(i))\n    }")]),
    ('m10-debug-assert-off-by-one', ['C10'], 'R-DA|quadwt::huffqwt::HuffQWaveletTree::rank_prefetch_unchecked', [
        ('src/quadwt/huffqwt.rs', "        //we get the code on which we rank\n        let code = &self.codes_encode[symbol.as_() as usize];\n\n        if WITH_PREFETCH_SUPPORT {",
         "        debug_assert!(i < self.n);\n        //we get the code on which we rank\n        let code = &self.codes_encode[symbol.as_() as usize];\n\n        if WITH_PREFETCH_SUPPORT {")]),
    ('m11-serde-skip', ['C11', 'C19'], 'R-SER|bitvector::rs_wide::RSWide', [
        ('src/bitvector/rs_wide.rs', "    n_zeros: usize,\n}", "    #[serde(skip)]\n    n_zeros: usize,\n}")]),
    ('m12-wtiterator-next-back-guard', ['C12'], 'R-IT|WTIterator', [
        ('src/lib.rs', "        if self.i < self.end {\n            // SAFETY: bounds are checked\n            self.end -= 1;", "        if self.end > 0 {\n            // SAFETY: bounds are checked\n            self.end -= 1;")]),
    ('m13-qvector-no-mask', ['C13'], 'R-MSK|qvector::DataLine::set_symbol', [
        ('src/qvector/mod.rs', "let symbol = (symbol as u128) & Self::MASK;", "let symbol = symbol as u128;")]),
    ('m14-fixed-length-codes', ['C15', 'C02'], 'optimal lengths', [
        ('src/quadwt/huffqwt.rs', "        let codes = craft_wm_codes(&mut lengths, sigma.as_());",
         "        let n_frag = {\n            let mut f = 1u32;\n            while (1usize << (2 * f)) < lengths.len() {\n                f += 1;\n            }\n            f\n        };\n        for v in lengths.values_mut() {\n            *v = n_frag;\n        }\n        let codes = craft_wm_codes(&mut lengths, sigma.as_());")]),
    ('m15-space-usage-drops-component', ['C16'], 'R-SPC|qvector::rs_qvector::RSQVector', [
        ('src/qvector/rs_qvector.rs', "self.qv.space_usage_byte() + self.rs_support.space_usage_byte() + 5 * 8", "self.qv.space_usage_byte() + 5 * 8")]),
    ('m16-vec-len-for-capacity', ['C16'], 'R-SPC|Vec<T>', [
        ('src/space_usage/mod.rs', "self.first().unwrap().space_usage_byte() * self.capacity()", "self.first().unwrap().space_usage_byte() * self.len()"),
        ('src/space_usage/mod.rs', "mem::size_of::<Self>() + mem::size_of::<T>() * self.capacity()", "mem::size_of::<Self>() + mem::size_of::<T>() * self.len()")]),
    ('m17-cell-field', ['C18', 'C11'], 'R-AUTO|bitvector::rs_wide::RSWide.last_query', [
        ('src/bitvector/rs_wide.rs', "    n_zeros: usize,\n}", "    n_zeros: usize,\n    #[serde(skip)]\n    last_query: std::cell::Cell<usize>,\n}"),
        ('src/bitvector/rs_wide.rs', "            n_zeros,\n        }", "            n_zeros,\n            last_query: Default::default(),\n        }")]),
    ('m18-partition2-narrows-first', ['C17', 'C19', 'C03'], 'R-W|w1|utils::stable_partition_of_2', [
        ('src/utils/mod.rs', "let bit = (a >> shift).as_() & 1;", "let bit = (a.as_() >> shift) & 1;")]),
    ('m19-conversion-drops-count', ['C08', 'C19'], 'R-CONV|BitVector from BitVectorMut', [
        ('src/bitvector/mod.rs', "            data: bvm.data.into_boxed_slice(),\n            n_bits: bvm.n_bits,\n            n_ones: bvm.n_ones,", "            data: bvm.data.into_boxed_slice(),\n            n_bits: bvm.n_bits,\n            n_ones: 0,")]),
    ('m20-wt-rank-no-symbol-test', ['C03', 'C04'], 'binwt::WaveletTree::rank[COMPRESSED=false]', [
        ('src/binwt/mod.rs', "        if !COMPRESSED && symbol > *self.sigma.as_ref()? {\n            return None;\n        }\n\n        if COMPRESSED {\n            let codes = self.codes_encode.as_ref()?;\n            match symbol.to_usize() {\n                Some(s) if s < codes.len() && codes[s].len != 0 => {}\n                _ => return None,\n            }\n        }\n\n        Some(unsafe { self.rank_unchecked(symbol, i) })",
         "        if COMPRESSED {\n            let codes = self.codes_encode.as_ref()?;\n            match symbol.to_usize() {\n                Some(s) if s < codes.len() && codes[s].len != 0 => {}\n                _ => return None,\n            }\n        }\n\n        Some(unsafe { self.rank_unchecked(symbol, i) })")]),
    ('m21-eq-ignores-field', ['C11', 'C19'], 'eq compares fields', [
        ('src/bitvector/rs_wide.rs', "#[derive(Clone, Default, Eq, PartialEq, Serialize, Deserialize, Debug)]\npub struct RSWide {",
         "#[derive(Clone, Default, Eq, Serialize, Deserialize, Debug)]\npub struct RSWide {"),
        ('src/bitvector/rs_wide.rs', "impl RSWide {\n", "impl PartialEq for RSWide {\n    fn eq(&self, other: &Self) -> bool {\n        self.bv == other.bv && self.superblock_metadata == other.superblock_metadata && self.n_zeros == other.n_zeros\n    }\n}\n\nimpl RSWide {\n")]),
    ('m22-superblock-eight-counters', ['C14', 'C05'], 'R-LAY', [
        ('src/qvector/rs_qvector/rs_support_plain.rs', "struct SuperblockPlain {\n    counters: [u128; 4],\n}", "struct SuperblockPlain {\n    counters: [u128; 4],\n    _pad: [u128; 4],\n}"),
        ('src/qvector/rs_qvector/rs_support_plain.rs', "        Self { counters }\n", "        Self { counters, _pad: [0; 4] }\n")]),
    ('m23-safe-unchecked', ['C04', 'C10', 'C18'], 'R-UNS|', [
        ('src/bitvector/mod.rs', "    pub unsafe fn get_bits_unchecked(&self, index: usize, len: usize) -> u64 {\n        BitVectorMut::get_bits_slice(cast_to_u64_slice(&self.data), index, len)\n    }",
         "    pub fn get_bits_unchecked(&self, index: usize, len: usize) -> u64 {\n        unsafe { BitVectorMut::get_bits_slice(cast_to_u64_slice(&self.data), index, len) }\n    }"),
        ('src/bitvector/mod.rs', "(index > self.n_bits) || (len > self.n_bits - index) {\n            return None;\n        }\n        // SAFETY: safe access due to the above checks\n        Some(unsafe { self.get_bits_unchecked(index, len) })",
         "(index > self.n_bits) || (len > self.n_bits - index) {\n            return None;\n        }\n        Some(self.get_bits_unchecked(index, len))")]),
    ('m24-qvector-data-vec', ['C14'], 'R-BOX|qvector::QVector.data', [
        ('src/qvector/mod.rs', "pub struct QVector {\n    data: Box<[DataLine]>,", "pub struct QVector {\n    data: Vec<DataLine>,"),
        ('src/qvector/mod.rs', "            data: self.data.into_boxed_slice(),\n            position: self.position,", "            data: self.data,\n            position: self.position,")]),
    ('m25-empty-guard-removed', ['C01', 'C04'], 'R-E|quadwt::QWaveletTree', [
        ('src/quadwt/mod.rs', "        if self.n == 0 || symbol > self.sigma {\n            return None;\n        }", "        if symbol > self.sigma {\n            return None;\n        }")]),
    ('m26-select-unchecked-add', ['C01', 'C04'], 'R-O|quadwt::QWaveletTree::SelectUnsigned::select', [
        ('src/quadwt/mod.rs', "rank_b.checked_add(result)?", "(rank_b + result)")]),
    ('m27-set-bits-forgets-old-ones', ['C08'], 'R-NON|bitvector::BitVectorMut::set_bits', [
        ('src/bitvector/mod.rs', "        self.n_ones -= old_bits.count_ones() as usize;\n", "")]),
    ('m28-darray-sparse-per-position', ['C07'], 'R-DAR|flush_block sparse', [
        ('src/darray/mod.rs', ".take((curr_positions.len() + SUBBLOCK_SIZE - 1) / SUBBLOCK_SIZE)", ".take(curr_positions.len())")]),
    ('m29-intoiter-unguarded', ['C12'], 'R-IT|bitvector::BitVectorIntoIter', [
        ('src/bitvector/mod.rs', "        let bit = self.bv.get(self.i)?;\n        self.i += 1;\n        Some(bit)", "        self.i += 1;\n        self.bv.get(self.i - 1)")]),
    ('m30-from-iter-truncates', ['C19', 'C01'], 'R-DEL|quadwt::QWaveletTree::FromIterator', [
        ('src/quadwt/mod.rs', "QWaveletTree::new(&mut iter.into_iter().collect::<Vec<T>>())", "QWaveletTree::new(&mut iter.into_iter().take(1 << 20).collect::<Vec<T>>())")]),
    ('m31-level-write-unguarded', ['C15', 'C02'], 'level write guarded', [
        ('src/quadwt/huffqwt.rs', "                if cur_code.len >= shift {\n                    //we put in a qvector\n                    let qv_symbol = (cur_code.content >> (cur_code.len - shift)) & 3;\n                    cur_qv.push(qv_symbol as u8);\n                }",
         "                let qv_symbol = if cur_code.len >= shift { (cur_code.content >> (cur_code.len - shift)) & 3 } else { 0 };\n                cur_qv.push(qv_symbol as u8);")]),
    ('m32-gib-divisor', ['C16'], 'R-SPC|space_usage_GiB', [
        ('src/space_usage/mod.rs', "(bytes as f64) / ((1024 * 1024 * 1024) as f64)", "(bytes as f64) / ((1000 * 1024 * 1024) as f64)")]),
    ('m33-rank-prefetch-stricter', ['C09', 'C01'], 'R-SIB|QWaveletTree position', [
        ('src/quadwt/mod.rs', "    pub fn rank_prefetch(&self, symbol: T, i: usize) -> Option<usize> {\n        if self.n == 0 || i > self.n || symbol > self.sigma {",
         "    pub fn rank_prefetch(&self, symbol: T, i: usize) -> Option<usize> {\n        if self.n == 0 || i >= self.n || symbol > self.sigma {")]),
    ('m34-debug-only-code', ['C10'], 'R-DBG|', [
        ('src/bitvector/rs_wide.rs', "    fn rank1(&self, i: usize) -> Option<usize> {\n", "    fn rank1(&self, i: usize) -> Option<usize> {\n        if cfg!(debug_assertions) && i == usize::MAX - 1 {\n            return Some(0);\n        }\n")]),
    ('m35-get-word-unchecked-indexing', ['C04'], 'R-E|bitvector::BitVector::get_word', [
        ('src/bitvector/mod.rs', "    pub fn get_word(&self, i: usize) -> u64 {\n        self.data[i >> 3].words[i % 8]\n    }\n\n    /// Returns a non-consuming iterator over positions of bits set to 1 in the bit vector.\n    ///\n    /// # Examples\n    ///\n    /// ```\n    /// use qwt::BitVector;",
         "    pub fn get_word(&self, i: usize) -> u64 {\n        // hot path of DArray::select: skip the bounds check\n        unsafe { self.data.get_unchecked(i >> 3).words[i % 8] }\n    }\n\n    /// Returns a non-consuming iterator over positions of bits set to 1 in the bit vector.\n    ///\n    /// # Examples\n    ///\n    /// ```\n    /// use qwt::BitVector;")]),
]


B03_OLD = "        if i >= self.bv.len() {\n            return None;\n        }\n        Some(unsafe { self.get_unchecked(i) })\n    }\n\n    /// Returns the bit at the given position `i`."
B03_NEW = "        if i >= self.bv.len() {\n            None\n        } else {\n            Some(unsafe { self.get_unchecked(i) })\n        }\n    }\n\n    /// Returns the bit at the given position `i`."
B08_OLD = "        if i >= self.bv.len() {\n            return None;\n        }\n\n        // SAFETY: no out of bound is possible\n        Some(unsafe { self.get_unchecked(i) })"
B08_NEW = "        match i < self.bv.len() {\n            true => Some(unsafe { self.get_unchecked(i) }),\n            false => None,\n        }"

# (id, edits): every property check must stay silent
BENIGN = [
    ('b01-len-getter-in-guard', [
        ('src/quadwt/mod.rs', "        if i >= self.n {\n            return None;\n        }\n        // SAFETY: check before guarantees we are not out of bound", "        if i >= self.len() {\n            return None;\n        }\n        // SAFETY: check before guarantees we are not out of bound")]),
    ('b02-swapped-or-operands', [
        ('src/quadwt/mod.rs', "    fn rank(&self, symbol: Self::Item, i: usize) -> Option<usize> {\n        if self.n == 0 || i > self.n || symbol > self.sigma {", "    fn rank(&self, symbol: Self::Item, i: usize) -> Option<usize> {\n        if symbol > self.sigma || i > self.n || self.n == 0 {")]),
    ('b03-if-else-instead-of-early-return', [
        ('src/bitvector/rs_wide.rs', B03_OLD, B03_NEW)]),
    ('b04-bool-then', [
        ('src/qvector/mod.rs', "        if i >= self.position >> 1 {\n            return None;\n        }\n        // SAFETY: Check before guarantees to be not out of bound\n        unsafe { Some(self.get_unchecked(i)) }", "        (i < self.len()).then(|| unsafe { self.get_unchecked(i) })")]),
    ('b05-renamed-local-and-division', [
        ('src/qvector/mod.rs', "        self.position >> 1\n", "        self.position / 2\n")]),
    ('b06-redundant-debug-assert', [
        ('src/qvector/rs_qvector.rs', "    unsafe fn rank_block_unchecked(&self, symbol: u8, i: usize) -> usize {\n", "    unsafe fn rank_block_unchecked(&self, symbol: u8, i: usize) -> usize {\n        debug_assert!(symbol <= 3);\n")]),
    ('b07-validation-helper', [
        ('src/qvector/rs_qvector.rs', "    fn occs(&self, symbol: u8) -> Option<usize> {\n        if symbol > 3 {\n            return None;\n        }", "    fn occs(&self, symbol: u8) -> Option<usize> {\n        if !valid_quad(symbol) {\n            return None;\n        }"),
        ('src/qvector/rs_qvector.rs', "impl<S: RSSupport> WTSupport for RSQVector<S> {\n", "#[inline(always)]\nfn valid_quad(symbol: u8) -> bool {\n    symbol <= 3\n}\n\nimpl<S: RSSupport> WTSupport for RSQVector<S> {\n")]),
    ('b08-match-on-condition', [
        ('src/bitvector/rs_narrow.rs', B08_OLD, B08_NEW)]),
    ('b09-comment-and-reorder-fields-doc', [
        ('src/darray/mod.rs', "const SUBBLOCK_SIZE: usize = 32;", "/// Number of positions summarised by one sub-block entry.\nconst SUBBLOCK_SIZE: usize = 32;")]),
    ('b10-not-less-than', [
        ('src/binwt/mod.rs', "        if i >= self.n {\n            return None;\n        }\n\n        Some(unsafe { self.get_unchecked(i) })", "        if !(i < self.n) {\n            return None;\n        }\n\n        Some(unsafe { self.get_unchecked(i) })")]),
    ('b11-extra-emptiness-test', [
        ('src/quadwt/huffqwt.rs', "    fn select(&self, symbol: Self::Item, i: usize) -> Option<usize> {\n        if !self.is_coded(symbol) {", "    fn select(&self, symbol: Self::Item, i: usize) -> Option<usize> {\n        if self.is_empty() || !self.is_coded(symbol) {")]),
    ('b12-space-usage-reordered', [
        ('src/qvector/rs_qvector.rs', "self.qv.space_usage_byte() + self.rs_support.space_usage_byte() + 5 * 8", "5 * 8 + self.rs_support.space_usage_byte() + self.qv.space_usage_byte()")]),
    ('b13-sample-slot-by-shift', [
        ('src/qvector/rs_qvector/rs_support_plain.rs', "        let sampled_i = (i - 1) / Self::SELECT_NUM_SAMPLES;", "        let slot = (i - 1) >> 13;\n        let sampled_i = slot;")]),
    ('b14-hint-test-through-a-local', [
        ('src/bitvector/rs_wide.rs', "            if (total_rank + word_pop) / SELECT_ONES_PER_HINT as u128 > cur_hint_1 {", "            let ones_so_far = total_rank + word_pop;\n            if ones_so_far / SELECT_ONES_PER_HINT as u128 > cur_hint_1 {")]),
    ('b15-div-ceil', [
        ('src/bitvector/mod.rs', "        let new_size = (self.n_bits + 511) / 512;", "        let new_size = self.n_bits.div_ceil(512);")]),
    ('b16-chunk-close-by-mask', [
        ('src/quadwt/prefetch_support.rs', "            if i % sample_rate == 0 || i == qv.len() - 1 {", "            if i & (sample_rate - 1) == 0 || i == qv.len() - 1 {")]),
    ('b17-group-by-shift', [
        ('src/darray/mod.rs', "        let block = i / BLOCK_SIZE;", "        let block = i >> 10;")]),
    ('b18-shift-recomputed-per-level', [
        ('src/quadwt/mod.rs', "        for level in 0..self.n_levels - 1 {\n            let two_bits: u8 = ((symbol >> shift as usize).as_() & 3) as u8;\n\n            // Safety: Here we are sure that two_bits is a symbol in [0..3]\n            let offset = unsafe { self.qvs[level].occs_smaller_unchecked(two_bits) };\n            cur_p = self.qvs[level].rank_unchecked(two_bits, cur_p) + offset;",
         "        for level in 0..self.n_levels - 1 {\n            debug_assert!(shift == 2 * (self.n_levels - 1 - level) as i64);\n            let two_bits: u8 = ((symbol >> shift as usize).as_() & 3) as u8;\n\n            // Safety: Here we are sure that two_bits is a symbol in [0..3]\n            let offset = unsafe { self.qvs[level].occs_smaller_unchecked(two_bits) };\n            cur_p = self.qvs[level].rank_unchecked(two_bits, cur_p) + offset;")]),
    ('b19-guard-by-checked-sub', [
        ('src/bitvector/mod.rs', "(index > self.n_bits) || (len > self.n_bits - index) {\n            return None;\n        }\n        // SAFETY: safe access due to the above checks\n        Some(unsafe { self.get_bits_unchecked(index, len) })",
         "(index > self.n_bits) {\n            return None;\n        }\n        if len > self.n_bits - index {\n            return None;\n        }\n        // SAFETY: safe access due to the above checks\n        Some(unsafe { self.get_bits_unchecked(index, len) })")]),
    # formerly mutant m36 (reported by the unsafe inventory): for every value built through the API the index is the one the
    # checked access used, so behaviour is unchanged; an additional unchecked site is a note, not a violation
    ('b20-overflow-positions-unchecked-read', [
        ('src/darray/mod.rs', "            return Some(inventories.overflow_positions[idx]);", "            return Some(unsafe { *inventories.overflow_positions.get_unchecked(idx) });")]),
]
