#!/usr/bin/env python3
"""Apply each behaviour-preserving refactoring patch under selftest/benign_patches/ (produced by independent
sub-agents; unit + doc tests pass with each) to a scratch copy of the current /repo and require every property check to
stay silent.   selftest/run_benign_patches.py [--dir DIR] [--ids a,b] [--props C01,..] [--jobs N]"""
import argparse, concurrent.futures, glob, json, os, shutil, subprocess, sys
HERE = os.path.dirname(os.path.abspath(__file__))
VERIF = os.path.dirname(HERE)
sys.path.insert(0, os.path.join(VERIF, 'engine'))
sys.path.insert(0, HERE)
from qlint import extract, props as P
from qlint.core import Facts
import run as R


def one(path, props):
    name = os.path.basename(os.path.dirname(path)) + '/' + os.path.basename(path) if 'refac' in path else os.path.basename(path)
    d, _ = R.make_copy([])
    try:
        r = subprocess.run(['patch', '-p1', '-s', '-i', os.path.abspath(path)], cwd=d, stdout=subprocess.PIPE, stderr=subprocess.STDOUT, text=True)
        if r.returncode != 0:
            return {'id': name, 'status': 'SKIPPED', 'detail': 'patch does not apply'}
        try:
            paths, key = extract.extract(repo=d, quiet=True)
        except SystemExit:
            return {'id': name, 'status': 'NOCOMPILE'}
        facts = {c: Facts(p, c) for c, p in paths.items()}
        alarms = []
        for p in props:
            for v in R.violations_for(p, facts):
                alarms.append('%s %s :: %s' % (p, v.key, v.detail[:200]))
        P._cache.clear()
        return {'id': name, 'status': 'SILENT' if not alarms else 'FALSE-ALARM', 'alarms': sorted(set(alarms))}
    finally:
        shutil.rmtree(d, ignore_errors=True)


def main():
    ap = argparse.ArgumentParser()
    ap.add_argument('--dir', default=os.path.join(HERE, 'benign_patches'))
    ap.add_argument('--glob', default='')
    ap.add_argument('--props', default='')
    ap.add_argument('--jobs', type=int, default=4)
    ap.add_argument('--json', default='')
    a = ap.parse_args()
    files = sorted(glob.glob(a.glob)) if a.glob else sorted(glob.glob(os.path.join(a.dir, '*.diff')))
    props = [p for p in sorted(P.PROPERTIES) if not a.props or p in a.props.split(',')]
    os.environ['QLINT_CACHE_LIMIT'] = '80'
    res = []
    with concurrent.futures.ThreadPoolExecutor(max_workers=a.jobs) as ex:
        for r in ex.map(lambda f: one(f, props), files):
            res.append(r)
            print('%-12s %-40s %s' % (r['status'], r['id'], ' | '.join(r.get('alarms', [])[:4])[:600]), flush=True)
    if a.json:
        json.dump(res, open(a.json, 'w'), indent=1)
    bad = [r for r in res if r['status'] in ('FALSE-ALARM', 'NOCOMPILE')]
    print('benign patches: %d, silent %d, false alarms %d, skipped %d' % (len(res), sum(r['status'] == 'SILENT' for r in res), len(bad), sum(r['status'] == 'SKIPPED' for r in res)))
    return 1 if bad else 0


if __name__ == '__main__':
    sys.exit(main())
